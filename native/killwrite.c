/* killwrite - kill-at-n-th-write fault injector (LD_PRELOAD).
 *
 * Counts write-type system calls (write, pwrite, pwrite64, writev, pwritev, pwritev64, ftruncate, ftruncate64) on file descriptors whose
 * path contains $KILLWRITE_TARGET.  With KILLWRITE_AT=n (n>=1) the process is SIGKILLed immediately after the n-th such call has
 * completed; with KILLWRITE_AT=0 it is killed immediately before the first one.  With KILLWRITE_LOG=<file> every counted call is
 * appended to the log as "<n> <op> <offset> <length>" (used by the fault-free counting run and for the strace cross-check).
 */
#define _GNU_SOURCE
#include <dlfcn.h>
#include <fcntl.h>
#include <signal.h>
#include <stdio.h>
#include <stdlib.h>
#include <string.h>
#include <sys/types.h>
#include <sys/uio.h>
#include <unistd.h>

static long count = 0;
static int inited = 0;
static const char *target = NULL, *logpath = NULL;
static long kill_at = -1;

static void init(void) {
	if (inited) return;
	inited = 1;
	target = getenv("KILLWRITE_TARGET");
	logpath = getenv("KILLWRITE_LOG");
	const char *k = getenv("KILLWRITE_AT");
	kill_at = k ? atol(k) : -1;
}

static int is_target(int fd) {
	init();
	if (!target || !*target) return 0;
	char link[64], path[4096];
	snprintf(link, sizeof link, "/proc/self/fd/%d", fd);
	ssize_t n = readlink(link, path, sizeof path - 1);
	if (n <= 0) return 0;
	path[n] = 0;
	return strstr(path, target) != NULL;
}

static void die(void) { kill(getpid(), SIGKILL); for (;;) pause(); }

static void before(int fd) { if (kill_at == 0 && is_target(fd)) die(); }

static void after(int fd, const char *op, long long off, long long len) {
	if (!is_target(fd)) return;
	count++;
	if (logpath) {
		int lf = open(logpath, O_WRONLY | O_APPEND | O_CREAT, 0644);
		if (lf >= 0) { char buf[128]; int m = snprintf(buf, sizeof buf, "%ld %s %lld %lld\n", count, op, off, len);
			ssize_t (*real_write)(int, const void *, size_t) = dlsym(RTLD_NEXT, "write"); real_write(lf, buf, m); close(lf); }
	}
	if (kill_at > 0 && count == kill_at) die();
}

ssize_t write(int fd, const void *buf, size_t n) {
	static ssize_t (*real)(int, const void *, size_t); if (!real) real = dlsym(RTLD_NEXT, "write");
	before(fd); ssize_t r = real(fd, buf, n); after(fd, "write", -1, (long long)n); return r;
}
ssize_t pwrite(int fd, const void *buf, size_t n, off_t off) {
	static ssize_t (*real)(int, const void *, size_t, off_t); if (!real) real = dlsym(RTLD_NEXT, "pwrite");
	before(fd); ssize_t r = real(fd, buf, n, off); after(fd, "pwrite", (long long)off, (long long)n); return r;
}
ssize_t pwrite64(int fd, const void *buf, size_t n, off64_t off) {
	static ssize_t (*real)(int, const void *, size_t, off64_t); if (!real) real = dlsym(RTLD_NEXT, "pwrite64");
	before(fd); ssize_t r = real(fd, buf, n, off); after(fd, "pwrite", (long long)off, (long long)n); return r;
}
ssize_t writev(int fd, const struct iovec *iov, int c) {
	static ssize_t (*real)(int, const struct iovec *, int); if (!real) real = dlsym(RTLD_NEXT, "writev");
	before(fd); ssize_t r = real(fd, iov, c); after(fd, "writev", -1, (long long)r); return r;
}
ssize_t pwritev(int fd, const struct iovec *iov, int c, off_t off) {
	static ssize_t (*real)(int, const struct iovec *, int, off_t); if (!real) real = dlsym(RTLD_NEXT, "pwritev");
	before(fd); ssize_t r = real(fd, iov, c, off); after(fd, "pwritev", (long long)off, (long long)r); return r;
}
ssize_t pwritev64(int fd, const struct iovec *iov, int c, off64_t off) {
	static ssize_t (*real)(int, const struct iovec *, int, off64_t); if (!real) real = dlsym(RTLD_NEXT, "pwritev64");
	before(fd); ssize_t r = real(fd, iov, c, off); after(fd, "pwritev", (long long)off, (long long)r); return r;
}
int ftruncate(int fd, off_t len) {
	static int (*real)(int, off_t); if (!real) real = dlsym(RTLD_NEXT, "ftruncate");
	before(fd); int r = real(fd, len); after(fd, "ftruncate", (long long)len, 0); return r;
}
int ftruncate64(int fd, off64_t len) {
	static int (*real)(int, off64_t); if (!real) real = dlsym(RTLD_NEXT, "ftruncate64");
	before(fd); int r = real(fd, len); after(fd, "ftruncate", (long long)len, 0); return r;
}
