/* gompmc - a controlled scheduler for the five libgomp entry points gambit's metric.so imports.
 *
 * LD_PRELOADed into the harness process.  While an exploration is "armed" (gompmc_arm), GOMP_parallel runs the outlined
 * parallel body in T real pthreads under a baton: exactly one of them runs at a time, and every successful
 * GOMP_loop_nonmonotonic_dynamic_start/_next (after the chunk is taken, before its body runs), GOMP_barrier, and every thread start is a scheduling point at
 * which the next thread to run is taken from a caller-supplied choice sequence (choice 0 afterwards).  The trace of choice
 * points (number enabled, whether the running thread was still enabled, choice taken) and the iteration->thread assignment
 * are recorded for the explorer (mc/sched.py).  When not armed every entry point forwards to the real libgomp.
 *
 * Canonical order of the enabled set at a point: the thread that ran last first (if still enabled), then ascending ids.
 */
#define _GNU_SOURCE
#include <dlfcn.h>
#include <pthread.h>
#include <semaphore.h>
#include <stdbool.h>
#include <stdio.h>
#include <stdlib.h>
#include <string.h>

#define MAXT 16
#define MAXTRACE 4096
#define MAXGRANTS 1024

enum { ST_READY = 0, ST_BARRIER = 1, ST_DONE = 2 };

static int armed = 0, T = 2;
static int prefix[MAXTRACE], nprefix = 0;
static int tr_n[MAXTRACE], tr_run[MAXTRACE], tr_taken[MAXTRACE], tr_thread[MAXTRACE], ntrace = 0;
static int gr_thread[MAXGRANTS]; static long gr_start[MAXGRANTS], gr_end[MAXGRANTS]; static int ngrants = 0;
static int err = 0;           /* 1 out-of-range choice, 2 deadlock, 3 overflow, 4 nested/unsupported */
static int regions = 0;

static sem_t sem_thr[MAXT], sem_sched;
static int st[MAXT], nbar = 0;
static __thread int me = -1;
static void (*cur_fn)(void *); static void *cur_data;

/* work-share state (one dynamic loop per region) */
static int ws_init = 0; static long ws_next, ws_end, ws_incr, ws_chunk;

static void *real(const char *name) { void *p = dlsym(RTLD_NEXT, name); if (!p) { fprintf(stderr, "gompmc: no real %s\n", name); abort(); } return p; }

void gompmc_arm(int threads, const int *choices, int n) {
	armed = 1; T = threads < 1 ? 1 : (threads > MAXT ? MAXT : threads);
	nprefix = n > MAXTRACE ? MAXTRACE : n; if (n > 0) memcpy(prefix, choices, sizeof(int) * nprefix);
	ntrace = 0; ngrants = 0; err = (n > MAXTRACE) ? 3 : 0; regions = 0;
}
void gompmc_disarm(void) { armed = 0; }
int gompmc_error(void) { return err; }
int gompmc_regions(void) { return regions; }
int gompmc_trace(int *n, int *run, int *taken, int *thread, int cap) {
	int m = ntrace < cap ? ntrace : cap;
	for (int i = 0; i < m; i++) { n[i] = tr_n[i]; run[i] = tr_run[i]; taken[i] = tr_taken[i]; thread[i] = tr_thread[i]; }
	return ntrace;
}
int gompmc_grants(int *thread, long *start, long *end, int cap) {
	int m = ngrants < cap ? ngrants : cap;
	for (int i = 0; i < m; i++) { thread[i] = gr_thread[i]; start[i] = gr_start[i]; end[i] = gr_end[i]; }
	return ngrants;
}

static void yield_to_scheduler(void) { sem_post(&sem_sched); sem_wait(&sem_thr[me]); }

static void *thread_main(void *arg) {
	me = (int)(long)arg;
	sem_wait(&sem_thr[me]);          /* thread start is a scheduling point */
	cur_fn(cur_data);
	st[me] = ST_DONE;
	/* a finished thread counts as arrived for any barrier the others wait on?  No: OpenMP barriers are reached by all threads
	   of the team before the region ends; the generated code has none after the nowait loop except for lastprivate. */
	sem_post(&sem_sched);
	return NULL;
}

void GOMP_parallel(void (*fn)(void *), void *data, unsigned num_threads, unsigned flags) {
	if (!armed) { ((void (*)(void (*)(void *), void *, unsigned, unsigned))real("GOMP_parallel"))(fn, data, num_threads, flags); return; }
	if (me >= 0) { err = 4; fn(data); return; }          /* nested region inside a controlled thread: run inline */
	regions++;
	pthread_t th[MAXT];
	cur_fn = fn; cur_data = data; ws_init = 0; nbar = 0;
	sem_init(&sem_sched, 0, 0);
	for (int t = 0; t < T; t++) { st[t] = ST_READY; sem_init(&sem_thr[t], 0, 0); }
	for (int t = 0; t < T; t++) pthread_create(&th[t], NULL, thread_main, (void *)(long)t);
	int running = -1;
	for (;;) {
		int order[MAXT], n = 0, alive = 0;
		for (int t = 0; t < T; t++) if (st[t] != ST_DONE) alive++;
		if (!alive) break;
		bool run_en = running >= 0 && st[running] == ST_READY;
		if (run_en) order[n++] = running;
		for (int t = 0; t < T; t++) if (st[t] == ST_READY && !(run_en && t == running)) order[n++] = t;
		if (n == 0) { err = 2; /* deadlock: release everybody so the process survives */
			for (int t = 0; t < T; t++) if (st[t] == ST_BARRIER) st[t] = ST_READY; continue; }
		int c = 0;
		if (ntrace < nprefix) c = prefix[ntrace];
		if (c < 0 || c >= n) { err = 1; c = 0; }
		if (ntrace < MAXTRACE) { tr_n[ntrace] = n; tr_run[ntrace] = run_en; tr_taken[ntrace] = c; tr_thread[ntrace] = order[c]; ntrace++; }
		else err = 3;
		running = order[c];
		sem_post(&sem_thr[running]);
		sem_wait(&sem_sched);
	}
	for (int t = 0; t < T; t++) pthread_join(th[t], NULL);
}

static bool grab(long *istart, long *iend) {
	if (ws_incr > 0 ? ws_next >= ws_end : ws_next <= ws_end) return false;
	long s = ws_next, e = s + ws_chunk * ws_incr;
	if (ws_incr > 0 ? e > ws_end : e < ws_end) e = ws_end;
	ws_next = e; *istart = s; *iend = e;
	if (ngrants < MAXGRANTS) { gr_thread[ngrants] = me; gr_start[ngrants] = s; gr_end[ngrants] = e; ngrants++; } else err = 3;
	return true;
}

bool GOMP_loop_nonmonotonic_dynamic_start(long start, long end, long incr, long chunk, long *istart, long *iend) {
	if (!armed || me < 0) return ((bool (*)(long, long, long, long, long *, long *))real("GOMP_loop_nonmonotonic_dynamic_start"))(start, end, incr, chunk, istart, iend);
	if (!ws_init) { ws_init = 1; ws_next = start; ws_end = end; ws_incr = incr; ws_chunk = chunk < 1 ? 1 : chunk; }
	bool ok = grab(istart, iend);
	if (ok) yield_to_scheduler();      /* between taking a chunk and executing its body: another thread may take and run a later chunk first */
	return ok;
}

bool GOMP_loop_nonmonotonic_dynamic_next(long *istart, long *iend) {
	if (!armed || me < 0) return ((bool (*)(long *, long *))real("GOMP_loop_nonmonotonic_dynamic_next"))(istart, iend);
	bool ok = grab(istart, iend);
	if (ok) yield_to_scheduler();
	return ok;
}

void GOMP_loop_end_nowait(void) {
	if (!armed || me < 0) { ((void (*)(void))real("GOMP_loop_end_nowait"))(); return; }
}

void GOMP_barrier(void) {
	if (!armed || me < 0) { ((void (*)(void))real("GOMP_barrier"))(); return; }
	st[me] = ST_BARRIER; nbar++;
	int waiting_for = 0;
	for (int t = 0; t < T; t++) if (st[t] != ST_DONE) waiting_for++;
	if (nbar >= waiting_for) { for (int t = 0; t < T; t++) if (st[t] == ST_BARRIER) st[t] = ST_READY; nbar = 0; }
	yield_to_scheduler();
}
