#!/bin/bash
# run_all.sh [tier] [ids...]   - runs the checks one after another, prints one summary line each
tier="${1:-quick}"; shift
ids="$@"; [ -z "$ids" ] && ids="C01 C02 C03 C04 C05 C06 C07 C08 C09 C10 C11 C12 C13 C14 C15 C16 C17 C18 C19 C20"
fail=0
for id in $ids; do
  t0=$(date +%s.%N)
  out=$(./check $id --tier $tier 2>&1); rc=$?
  t1=$(date +%s.%N)
  printf "%s rc=%d %.1fs %s\n" $id $rc $(echo "$t1 - $t0" | bc) "$(echo "$out" | grep -E "^$id tier" | sed -E 's/.*(evaluations=[0-9]+).*(exhaustive=[A-Za-z]+) (violations=[0-9]+) (known=[0-9]+).*/\1 \2 \3 \4/')"
  if [ $rc -ne 0 ]; then fail=1; echo "$out" | grep -E "VIOLATION|INCONCLUSIVE|Error" | head -5; fi
done
exit $fail
