"""Reference models.  Written from the property statements; nothing here imports gambit.

Only int, bytes, Fraction, lists, dicts.  Boring on purpose.
"""
from fractions import Fraction
import itertools

DIG = {65: 0, 67: 1, 71: 2, 84: 3, 97: 0, 99: 1, 103: 2, 116: 3}      # A C G T a c g t
COMP = {65: 84, 84: 65, 67: 71, 71: 67, 97: 116, 116: 97, 99: 103, 103: 99}
LETTERS = b'ACGT'


# ------------------------------------------------------------------------------ C07 / C01

def ref_index(kmer: bytes):
	"""Base-4 positional value, first nucleotide most significant; None when not encodable."""
	if len(kmer) > 32:
		return None
	v = 0
	for b in kmer:
		if b not in DIG:
			return None
		v = v * 4 + DIG[b]
	return v


def ref_kmer(index: int, k: int) -> bytes:
	out = []
	for i in range(k):
		out.append(LETTERS[(index // 4 ** (k - 1 - i)) % 4])
	return bytes(out)


def ref_revcomp(seq: bytes) -> bytes:
	return bytes(COMP.get(b, b) for b in reversed(seq))


def ref_upper(seq: bytes) -> bytes:
	"""ASCII case folding of letters only (the statement says 'ignoring letter case')."""
	return bytes(b - 32 if 97 <= b <= 122 else b for b in seq)


def ref_dtype(k: int) -> str:
	"""Smallest unsigned type able to hold 4^k - 1."""
	m = 4 ** k - 1
	for name, bits in (('uint8', 8), ('uint16', 16), ('uint32', 32), ('uint64', 64)):
		if m < 2 ** bits:
			return name
	return None


def ref_signature_one(k: int, prefix: bytes, seq: bytes, out: set):
	"""k-mers that directly follow an occurrence of the prefix on either strand of one sequence."""
	p = len(prefix)
	for strand in (ref_upper(seq), ref_upper(ref_revcomp(seq))):
		n = len(strand)
		for i in range(0, n - p - k + 1):
			if strand[i:i + p] == prefix:
				v = ref_index(strand[i + p:i + p + k])
				if v is not None:
					out.add(v)


def ref_signature(k: int, prefix: bytes, seqs):
	out = set()
	for s in seqs:
		ref_signature_one(k, prefix, s, out)
	return sorted(out)


# ------------------------------------------------------------------------------ C02 / C15

def f32_bits_of_fraction(q: Fraction) -> int:
	"""Round a non-negative rational once to IEEE binary32 (round-half-even); returns the bit pattern."""
	if q == 0:
		return 0
	assert q > 0
	# find e with 2^e <= q < 2^(e+1)
	n, d = q.numerator, q.denominator
	e = n.bit_length() - d.bit_length()
	if Fraction(2) ** e > q:
		e -= 1
	elif Fraction(2) ** (e + 1) <= q:
		e += 1
	assert Fraction(2) ** e <= q < Fraction(2) ** (e + 1)
	if e < -126:
		# subnormal: spacing 2^-149
		scaled = q / Fraction(2) ** -149
		m = _round_half_even(scaled)
		return m  # may carry into the normal range correctly
	scaled = q / Fraction(2) ** (e - 23)    # in [2^23, 2^24)
	m = _round_half_even(scaled)
	if m == 2 ** 24:
		m = 2 ** 23
		e += 1
	assert e <= 127
	return ((e + 127) << 23) | (m - 2 ** 23)


def _round_half_even(q: Fraction) -> int:
	fl = q.numerator // q.denominator
	r = q - fl
	if r > Fraction(1, 2) or (r == Fraction(1, 2) and fl % 2 == 1):
		return fl + 1
	return fl


def f32_bits_to_fraction(bits: int) -> Fraction:
	sign = -1 if bits >> 31 else 1
	e = (bits >> 23) & 0xFF
	m = bits & 0x7FFFFF
	if e == 0xFF:
		raise ValueError('inf/nan')
	if e == 0:
		return sign * Fraction(m, 2 ** 149)
	return sign * Fraction(m + 2 ** 23) * Fraction(2) ** (e - 127 - 23)


def ref_jaccard_fraction(A, B) -> Fraction:
	a, b = set(A), set(B)
	u = len(a | b)
	if u == 0:
		return Fraction(0)
	return Fraction(len(a ^ b), u)


def ref_jaccard_f32(A, B) -> int:
	return f32_bits_of_fraction(ref_jaccard_fraction(A, B))


# ------------------------------------------------------------------------------ C09

def ref_closest(dists, N):
	"""Indices sorted by (distance, position), first min(N, n)."""
	order = sorted(range(len(dists)), key=lambda i: (dists[i], i))
	return order[:min(N, len(dists))]


# ------------------------------------------------------------------------------ forests (C03, C10)

def forests(n):
	"""All parent arrays parent[i] in {None, 0..i-1}: every forest shape on n labelled-by-creation taxa."""
	doms = [[None] + list(range(i)) for i in range(n)]
	return itertools.product(*doms)


def lineage(parent, t):
	"""t, parent(t), ... root"""
	out = []
	while t is not None:
		out.append(t)
		t = parent[t]
	return out


def ref_matching_taxon(parent, thr, taxon, d):
	"""Most specific taxon in the lineage (own first) carrying a threshold not smaller than d."""
	for t in lineage(parent, taxon):
		if thr[t] is not None and thr[t] >= d:
			return t
	return None


def ref_next_taxon(parent, thr, taxon, d):
	"""Nearest threshold-bearing taxon below the prediction in the lineage; absent when the prediction is
	the first threshold-bearing taxon... stated for the own taxon; topmost threshold-bearing when nothing predicted."""
	bearing = [t for t in lineage(parent, taxon) if thr[t] is not None]
	pred = ref_matching_taxon(parent, thr, taxon, d)
	if pred is None:
		return bearing[-1] if bearing else None
	i = bearing.index(pred)
	return bearing[i - 1] if i > 0 else None


def ref_report_taxon(parent, report, t):
	for x in lineage(parent, t):
		if report[x]:
			return x
	return None


def ref_consensus(parent, M):
	"""Consensus of a set of matched taxa.

	returns (consensus or None, set of members strictly below the consensus [all of M when None])
	deepest if M is a chain; otherwise LCA of the minimal (most specific) elements; None if no common ancestor.
	"""
	M = set(M)
	if not M:
		return None, set()
	lin = {t: lineage(parent, t) for t in M}
	# minimal elements: those with no other member of M strictly below them
	minimal = [t for t in M if not any(o != t and t in lin[o] for o in M)]
	if len(minimal) == 1:
		c = minimal[0]
	else:
		common = None
		for t in minimal:
			s = lin[t]
			common = s if common is None else [x for x in common if x in s]
		c = common[0] if common else None     # lineage lists are bottom-up, so first common = lowest
	if c is None:
		return None, set(M)
	below = {t for t in M if t != c and c in lin[t]}
	return c, below


# ------------------------------------------------------------------------------ C17 UPGMA

def ref_upgma_all(D, cap=5000):
	"""Every cophenetic matrix reachable by greedy average linkage under every tie-break.

	D: dict {(i,j): Fraction} for i<j over leaves 0..n-1.  Returns set of tuples (condensed cophenetic, i<j order).
	"""
	n = 1 + max(j for _, j in D) if D else 1
	results = set()
	seen = set()

	def rec(clusters, dist, coph):
		key = (tuple(sorted(clusters)), tuple(sorted(coph.items())))
		if key in seen:
			return
		seen.add(key)
		if len(seen) > cap:
			raise OverflowError('tie-break explosion')
		if len(clusters) == 1:
			results.add(tuple(coph[(i, j)] for i in range(n) for j in range(i + 1, n)))
			return
		m = min(dist.values())
		for (a, b), v in sorted(dist.items()):
			if v != m:
				continue
			new = tuple(sorted(a + b))
			ncl = [c for c in clusters if c != a and c != b]
			nd = {}
			for (x, y), w in dist.items():
				if x in (a, b) or y in (a, b):
					continue
				nd[(x, y)] = w
			for c in ncl:
				da = dist[(min(a, c), max(a, c))]
				db = dist[(min(b, c), max(b, c))]
				w = (da * len(a) + db * len(b)) / (len(a) + len(b))
				nd[(min(new, c), max(new, c))] = w
			nco = dict(coph)
			for i in a:
				for j in b:
					nco[(min(i, j), max(i, j))] = v
			rec(ncl + [new], nd, nco)

	clusters = [(i,) for i in range(n)]
	dist = {((i,), (j,)): D[(i, j)] for i in range(n) for j in range(i + 1, n)}
	rec(clusters, dist, {})
	return results


# ------------------------------------------------------------------------------ C08 labels

FASTA_EXTS = ('.fasta', '.fna', '.ffn', '.faa', '.frn', '.fa')


def ref_label(path: str) -> str:
	"""File name stripped of directory and FASTA / gzip extensions."""
	name = path.rsplit('/', 1)[-1]
	if name.endswith('.gz'):
		name = name[:-3]
	for e in FASTA_EXTS:
		if name.endswith(e):
			return name[:-len(e)]
	return name
