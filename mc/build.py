"""'Rebuild from the working tree'.

gambit is installed editable (site-packages .pth -> /repo/src), so Python sources are live.  The
three native modules are git-ignored .so files next to their generated .c; Cython is not in the
image.  prepare() therefore
  * recompiles X.so from X.c (gcc) when X.c is newer than X.so or X.so is missing,
  * runs cythonize first when a Cython is importable and X.pyx is newer than X.c,
  * otherwise, when X.pyx is newer than X.c, records 'native_stale' (returned as evidence
    assumptions) - it cannot regenerate C and does not pretend to,
  * compiles the LD_PRELOAD shims under /verif/native into /verif/native/build.
assert_tree() (run in every worker) checks that the gambit being exercised is the tree claimed.
"""
import fcntl
import os
import subprocess
import sys
import sysconfig

VERIF = os.path.dirname(os.path.dirname(os.path.abspath(__file__)))
REPO = os.environ.get('VERIF_REPO', '/repo')
SRC = os.path.join(REPO, 'src')
NATIVE = os.path.join(VERIF, 'native')
NBUILD = os.path.join(NATIVE, 'build')
MODS = ('kmers', 'metric', 'threads')


def assert_tree():
	import gambit
	f = os.path.realpath(gambit.__file__)
	if not f.startswith(os.path.realpath(SRC) + os.sep):
		from mc.core import HarnessError
		raise HarnessError(f'gambit imported from {f}, expected under {SRC}')


def _so_path(mod):
	suffix = sysconfig.get_config_var('EXT_SUFFIX')
	return os.path.join(SRC, 'gambit', '_cython', mod + suffix)


def _compile_ext(mod):
	d = os.path.join(SRC, 'gambit', '_cython')
	inc = sysconfig.get_paths()['include']
	import numpy
	cmd = ['gcc', '-O2', '-fPIC', '-shared', '-fopenmp', '-Wno-sign-compare', '-w',
	       '-I', inc, '-I', numpy.get_include(), os.path.join(d, mod + '.c'), '-o', _so_path(mod) + '.tmp']
	subprocess.run(cmd, check=True)
	os.replace(_so_path(mod) + '.tmp', _so_path(mod))


def build_shims():
	os.makedirs(NBUILD, exist_ok=True)
	built = []
	for name in sorted(os.listdir(NATIVE)):
		if not name.endswith('.c'):
			continue
		src = os.path.join(NATIVE, name)
		out = os.path.join(NBUILD, 'lib' + name[:-2] + '.so')
		if not os.path.exists(out) or os.path.getmtime(out) < os.path.getmtime(src):
			subprocess.run(['gcc', '-O1', '-g', '-fPIC', '-shared', '-pthread', src, '-o', out + '.tmp', '-ldl'], check=True)
			os.replace(out + '.tmp', out)
			built.append(out)
	return built


def prepare():
	notes = []
	os.makedirs(NBUILD, exist_ok=True)
	with open(os.path.join(NBUILD, '.lock'), 'w') as lk:
		fcntl.flock(lk, fcntl.LOCK_EX)
		build_shims()
		d = os.path.join(SRC, 'gambit', '_cython')
		try:
			import Cython  # noqa
			have_cython = True
		except ImportError:
			have_cython = False
		for mod in MODS:
			pyx, c, so = os.path.join(d, mod + '.pyx'), os.path.join(d, mod + '.c'), _so_path(mod)
			if os.path.exists(pyx) and os.path.exists(c) and os.path.getmtime(pyx) > os.path.getmtime(c) + 1:
				if have_cython:
					subprocess.run([sys.executable, '-m', 'cython', '-3str', pyx], check=True)
				else:
					notes.append(f'native_stale: {mod}.pyx is newer than the generated {mod}.c and no Cython exists in this '
					             f'image; the compiled module reflects {mod}.c')
					print(f'WARNING: {notes[-1]}', file=sys.stderr)
			if os.path.exists(c) and (not os.path.exists(so) or os.path.getmtime(c) > os.path.getmtime(so)):
				print(f'rebuilding {os.path.basename(so)} from {mod}.c', file=sys.stderr)
				_compile_ext(mod)
	assert_tree()
	return notes


if __name__ == '__main__':
	prepare()
	print('setup ok')
