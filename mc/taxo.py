"""Transient ORM taxonomies for the classifier explorations (no database needed, as in the repo's own tests)."""
import itertools
import types


def build_taxa(parent):
	"""parent: tuple with parent[i] in {None, 0..i-1}.  Returns list of transient gambit Taxon objects named <T0>, <T1>..."""
	from gambit.db import Taxon
	taxa = []
	for i, p in enumerate(parent):
		taxa.append(Taxon(name=f'<T{i}>', key=f'k{i}', parent=None if p is None else taxa[p], report=True, distance_threshold=None))
	return taxa


def set_attrs(taxa, thr=None, report=None):
	for i, t in enumerate(taxa):
		if thr is not None:
			t.distance_threshold = thr[i]
		if report is not None:
			t.report = report[i]


def make_genomes(taxa, placement):
	from gambit.db import AnnotatedGenome
	return [AnnotatedGenome(taxon=taxa[p]) for p in placement]


def fake_db(genomes):
	return types.SimpleNamespace(genomes=genomes)


def idx(taxa, t):
	"""Index of a Taxon object (None passes through)."""
	if t is None:
		return None
	for i, x in enumerate(taxa):
		if x is t:
			return i
	raise ValueError('foreign taxon returned')
