"""Transient ORM taxonomies for the classifier explorations (no database needed, as in the repo's own tests)."""
import itertools
import types


def build_taxa(parent):
	"""parent: tuple with parent[i] in {None, 0..i-1}.  Returns list of transient gambit Taxon objects named <T0>, <T1>..."""
	from gambit.db import Taxon
	taxa = []
	for i, p in enumerate(parent):
		taxa.append(Taxon(name=f'<T{i}>', key=f'k{i}', parent=None if p is None else taxa[p], report=True, distance_threshold=None))
	return taxa


def set_attrs(taxa, thr=None, report=None):
	for i, t in enumerate(taxa):
		if thr is not None:
			t.distance_threshold = thr[i]
		if report is not None:
			t.report = report[i]


def make_genomes(taxa, placement):
	from gambit.db import AnnotatedGenome
	return [AnnotatedGenome(taxon=taxa[p]) for p in placement]


def fake_db(genomes):
	return types.SimpleNamespace(genomes=genomes)


def idx(taxa, t):
	"""Index of a Taxon object (None passes through)."""
	if t is None:
		return None
	for i, x in enumerate(taxa):
		if x is t:
			return i
	return f'FOREIGN:{getattr(t, "name", t)!r}'        # an object that does not belong to the taxonomy being classified against


# ------------------------------------------------------------------------------------------------ persisted taxonomies
# Several databases that share primary keys, external keys and names of their taxa but differ in shape / thresholds / report flags:
# anything the classifier remembers about "taxon 3" from one database (or from before an edit) is wrong for the next one.

WORLDS = [
	dict(parent=(None, 0, 1, 2), thr=(0.75, 0.5, None, 0.25), report=(True, True, True, True), placement=(3, 3, 2)),
	dict(parent=(None, 0, 1, 2), thr=(0.25, 0.75, 0.5, None), report=(True, False, True, False), placement=(3, 3, 2)),
	dict(parent=(None, 0, 0, None), thr=(0.5, 0.25, 0.25, 0.75), report=(False, True, True, True), placement=(1, 2, 3)),
	dict(parent=(None, None, 1, 1), thr=(None, 0.75, None, 0.5), report=(True, True, False, True), placement=(0, 2, 3)),
	dict(parent=(None, 0, 1, 1), thr=(0.3, 0.3, 0.25, 0.5), report=(True, True, True, False), placement=(2, 3, 1)),
]


def write_world(path, w):
	from mc import fixtures
	n = len(w['parent'])
	taxa = [dict(name=f'<T{i}>', key=f'k{i}', parent=w['parent'][i], thr=w['thr'][i], report=w['report'][i], rank='r', ncbi_id=100 + i) for i in range(n)]
	genomes = [dict(key=f'g{j}', description=f'genome {j}', taxon=t) for j, t in enumerate(w['placement'])]
	fixtures.write_genome_db(path, taxa, genomes)


def open_world(path):
	"""-> (session, taxa in specification order, annotated genomes ordered by genome key)"""
	from gambit.db.refdb import load_genomeset
	from gambit.db.models import Taxon, AnnotatedGenome, Genome
	session, gset = load_genomeset(path)
	taxa = session.query(Taxon).order_by(Taxon.key).all()      # k0, k1, ... = creation order of the specification (primary keys may be assigned in another order)
	genomes = session.query(AnnotatedGenome).join(Genome).order_by(Genome.key).all()
	return session, taxa, genomes
