"""Synthetic database + genome files for the CLI checks (C08, C11, C14, C16, C17, C18).

Everything is generated deterministically; ground truth for distances is always computed by the library itself
(calc_file_signature + jaccarddist, decided by C01/C02/C06), never hand-written.
"""
import os
import types
from mc import fixtures

PARAMS = {'P0': (6, 'AT'), 'P1': (7, 'AT'), 'P2': (6, 'AC'), 'P3': (7, 'AC'), 'DEF': (11, 'ATGAC'), 'K17': (17, 'AT')}


def _lcg(seed):
	x = seed
	while True:
		x = (x * 6364136223846793005 + 1442695040888963407) % (1 << 64)
		yield x >> 33


def segment(i, n=56):
	g = _lcg(1000 + i)
	body = ''.join('ACGT'[next(g) % 4] for _ in range(n))
	# plant one default-spec block so 11/ATGAC signatures are non-empty too
	block = 'ATGAC' + ''.join('ACGT'[next(g) % 4] for _ in range(11))
	return body[:20] + block + body[20:]


SEGS = [segment(i) for i in range(12)]
REFS = [[0, 1, 2], [0, 1, 3], [4, 5, 6], [4, 5, 7], [0, 1, 2], [8, 9]]
QUERIES = {'g1': [0, 1, 2], 'g2': [0, 1, 8], 'g3': [4, 5, 6, 7], 'g4': [9]}
QFILES = {'g1': 'g1.fasta', 'g2': 'g2.fa', 'g3': 'g3.fna.gz', 'g4': 'dir.with.dots/g4'}
# extra query genomes used by some checks: no k-mer at all (empty signature under every parameter set); names that contain their own
# extension text elsewhere
EXTRA_QUERIES = {'empty1': 'EMPTY', 'empty2': 'EMPTY', 'E.faecalis_V583': [0, 1, 9], 'P.fa.lciparum.fasta_x': [4, 5], '#7_isolate': [2, 3, 8], 'E. coli K-12, substr. "MG1655"': [0, 5, 9]}      # a file name that looks like a comment
EXTRA_QFILES = {'empty1': 'empty1.fasta', 'empty2': 'empty2.fa.gz', 'E.faecalis_V583': 'E.faecalis_V583.fa', 'P.fa.lciparum.fasta_x': 'P.fa.lciparum.fasta_x.fasta.gz', '#7_isolate': '#7_isolate.fasta', 'E. coli K-12, substr. "MG1655"': 'E. coli K-12, substr. "MG1655".fasta'}

TAXA = [
	dict(name='Genus one', parent=None, thr=0.95, rank='genus', ncbi_id=100),
	dict(name='Genus one alpha', parent=0, thr=0.6, rank='species', ncbi_id=101),
	dict(name='Genus one beta', parent=0, thr=0.6, rank='species', ncbi_id=102),
	dict(name='Genus two', parent=None, thr=0.9, rank='genus', ncbi_id=200),
	dict(name='Genus two gamma', parent=3, thr=0.5, rank='species', ncbi_id=None, report=False),
]
REF_TAXA = [1, 1, 2, 2, 1, 4]


def contigs_of(segs):
	"""Two contigs per genome (so multi-record parsing is exercised)."""
	if segs == 'EMPTY':
		return ['GGGGCCCCGGGGCCCCGGGG', 'CCCCCCCCCC']        # neither AT / AC / ATGAC nor their reverse complements occur
	h = max(1, len(segs) // 2)
	return [''.join(SEGS[s] for s in segs[:h])] + ([''.join(SEGS[s] for s in segs[h:])] if segs[h:] else [])


def kspec_of(p):
	from gambit.kmers import KmerSpec
	return KmerSpec(*PARAMS[p])


def lib_signature(p, segs):
	from gambit.sigs.calc import calc_signature
	return calc_signature(kspec_of(p), contigs_of(segs))


def build(d, params=('P0',), ref_names=None, taxa=None, qlabels=None, pathlike_sig_ids=False):
	"""Create the database directory, query / reference FASTA files, list files and signature files under d."""
	import numpy as np
	from gambit.sigs.base import SignatureArray, AnnotatedSignatures, SignaturesMeta, dump_signatures
	fx = types.SimpleNamespace(d=d, dbdir=os.path.join(d, 'db'), q={}, qgz={}, qsig={}, rsig={}, r={}, params=params)
	os.makedirs(fx.dbdir)
	taxa = taxa or TAXA
	ref_names = ref_names or [f'ref{i}' for i in range(len(REFS))]
	genomes = [dict(key=f'verif/{ref_names[i]}', description=f'{ref_names[i]} description', taxon=REF_TAXA[i], refseq_acc=f'GCF_{i}', ncbi_db='assembly', ncbi_id=500 + i)
	           for i in range(len(REFS))]
	fixtures.write_genome_db(os.path.join(fx.dbdir, 'ref.gdb'), taxa, genomes)
	ks0 = kspec_of('P0')
	# signature file order differs from genome order and holds one unrelated signature
	order = [2, 0, 5, 'x', 1, 4, 3]
	sigs = [lib_signature('P0', REFS[i]) if i != 'x' else lib_signature('P0', [3, 7]) for i in order]
	ids = [genomes[i]['key'] if i != 'x' else 'verif/unrelated' for i in order]
	ann = AnnotatedSignatures(SignatureArray(sigs, ks0, dtype=ks0.index_dtype), ids, SignaturesMeta(id='verif/sigs', name='n', version='1.0', id_attr='key', extra=dict(author='verif')))
	dump_signatures(os.path.join(fx.dbdir, 'ref.gs'), ann)
	fx.db_sig_ids = ids
	fx.db_ref_order = [i for i in order if i != 'x']       # genome index of db.genomes[j]
	fx.genomes = genomes
	# query genomes
	for lab, segs in QUERIES.items():
		p = os.path.join(d, 'q', QFILES[lab])
		fixtures.write_fasta(p, contigs_of(segs), gz=p.endswith('.gz'), width=(7 if lab == 'g2' else 60), eol=('\r\n' if lab == 'g4' else '\n'))
		fx.q[lab] = p
		# same genome, opposite compression, in another directory (label must stay the same)
		alt = os.path.join(d, 'qalt', (QFILES[lab][:-3] if QFILES[lab].endswith('.gz') else QFILES[lab] + '.gz'))
		fixtures.write_fasta(alt, contigs_of(segs), gz=alt.endswith('.gz'))
		fx.qgz[lab] = alt
	# the same files reached through symbolic links with OTHER names (workflow managers stage inputs this way): the label is the name given
	fx.qlink = {}
	os.makedirs(os.path.join(d, 'qlinks'), exist_ok=True)
	for lab in QUERIES:
		ext = '.fna.gz' if fx.q[lab].endswith('.gz') else '.fasta'
		lp = os.path.join(d, 'qlinks', f'staged_{lab}_input{ext}')
		os.symlink(fx.q[lab], lp)
		fx.qlink[lab] = lp
	# plain FASTA under a name that ends in .gz, gzip under a name that does not (compression is recognised from the content)
	fx.qmis = {}
	for lab, segs in QUERIES.items():
		if QFILES[lab].endswith('.gz'):
			mp = os.path.join(d, 'qmis', QFILES[lab][:-3])
			fixtures.write_fasta(mp, contigs_of(segs), gz=True)
		else:
			mp = os.path.join(d, 'qmis', QFILES[lab] + '.gz')
			fixtures.write_fasta(mp, contigs_of(segs), gz=False)
		fx.qmis[lab] = mp
	fx.qx = {}
	for lab, segs in EXTRA_QUERIES.items():
		p = os.path.join(d, 'q', EXTRA_QFILES[lab])
		fixtures.write_fasta(p, contigs_of(segs), gz=p.endswith('.gz'))
		fx.qx[lab] = p
	# the same genomes as multi-member gzip files (what bgzip / `cat a.gz b.gz` produce; valid gzip), members cut mid-record
	fx.qmulti = {}
	import gzip, io
	for lab, segs in QUERIES.items():
		name = QFILES[lab] if QFILES[lab].endswith('.gz') else QFILES[lab] + '.gz'
		p = os.path.join(d, 'qmulti', name)
		os.makedirs(os.path.dirname(p), exist_ok=True)
		data = fixtures.fasta_text(contigs_of(segs)).encode('ascii')
		cuts = [0, len(data) // 3, 2 * len(data) // 3, len(data)]
		buf = io.BytesIO()
		for a, b in zip(cuts, cuts[1:]):
			with gzip.GzipFile(fileobj=buf, mode='wb', mtime=0) as f:
				f.write(data[a:b])
		with open(p, 'wb') as f:
			f.write(buf.getvalue())
		fx.qmulti[lab] = p
	# reference genomes as files
	for i, segs in enumerate(REFS):
		p = os.path.join(d, 'r', f'{ref_names[i]}.fasta')
		fixtures.write_fasta(p, contigs_of(segs))
		fx.r[i] = p
	# reference genomes stored under the QUERY file names in another directory: same labels, different genomes
	fx.rsame = {}
	for lab, i in zip(QUERIES, [2, 5, 0, 3]):
		p = os.path.join(d, 'rsame', QFILES[lab])
		fixtures.write_fasta(p, contigs_of(REFS[i]), gz=p.endswith('.gz'))
		fx.rsame[lab] = (p, i)
	labels = list(QUERIES) if qlabels is None else qlabels
	rsig_ids = list(ref_names)
	if pathlike_sig_ids:
		# stored IDs that look like paths / file names: a signature file's IDs are labels as they are
		shapes = ['{}', 'batch7/{}.fa', '{}.fasta.gz', 'refseq/{}, substr. "MG1655"']          # the last: CSV metacharacters inside a label
		labels = [shapes[i % 4].format(l) for i, l in enumerate(labels)]
		rsig_ids = [(['genbank/{}.fna', '{}, plasmid "p1"', '{}.gz'][i % 3]).format(r) for i, r in enumerate(ref_names)]
	fx.qsig_ids, fx.rsig_ids = labels, rsig_ids
	for pname in params:
		ks = kspec_of(pname)
		qs = [lib_signature(pname, QUERIES[l]) for l in QUERIES]
		p = os.path.join(d, f'queries-{pname}.gs')
		dump_signatures(p, AnnotatedSignatures(SignatureArray(qs, ks, dtype=ks.index_dtype), labels, SignaturesMeta(id='q')))
		fx.qsig[pname] = p
		rs = [lib_signature(pname, s) for s in REFS]
		p = os.path.join(d, f'refs-{pname}.gs')
		dump_signatures(p, AnnotatedSignatures(SignatureArray(rs, ks, dtype=ks.index_dtype), rsig_ids, SignaturesMeta(id='r')))
		fx.rsig[pname] = p
	return fx


def write_listfile(path, entries):
	with open(path, 'w') as f:
		f.write('\n'.join(entries) + '\n')
	return path


# ------------------------------------------------------------------------------------------------ shared oracles for dist output

def round4(x):
	"""Decimal rounding to 4 places of the exact binary value of a float32 distance (independent of format())."""
	from decimal import Decimal, ROUND_HALF_EVEN
	import numpy as np
	return str(Decimal(float(np.float32(x))).quantize(Decimal('0.0001'), rounding=ROUND_HALF_EVEN))


def expected_cells(pname, qsegs, rsegs):
	"""True distances between the library signatures under parameter set pname - computed by the exact-rational model (mc.refmodel), not by the
	library's own distance function - rounded once to float32 and then to 4 decimals."""
	import struct
	from mc import refmodel as R
	qs = [lib_signature(pname, s).tolist() for s in qsegs]
	rs = [lib_signature(pname, s).tolist() for s in rsegs]
	def f32(a, b):
		return struct.unpack('<f', struct.pack('<I', R.ref_jaccard_f32(a, b)))[0]
	return [[round4(f32(a, b)) for b in rs] for a in qs]


def parse_dmat(path):
	import csv
	with open(path, newline='') as f:
		rows = list(csv.reader(f))
	return rows[0][1:], [r[0] for r in rows[1:]], [r[1:] for r in rows[1:]]
