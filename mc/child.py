"""Run one task function in a fresh interpreter with a modified environment (CPU-dispatch settings, LD_PRELOAD shims...).

parent:  shard_dict = child.run(modname, fname, kwargs, env={...})
"""
import importlib
import json
import os
import pickle
import subprocess
import sys
import tempfile


def run(modname, fname, kwargs, env=None, timeout=3000):
	from mc.core import HarnessError
	e = dict(os.environ)
	e.update(env or {})
	with tempfile.NamedTemporaryFile(prefix='gverif-child-', suffix='.pkl', dir=os.environ.get('TMPDIR') or '/dev/shm') as tf:
		r = subprocess.run([sys.executable, '-m', 'mc.child', modname, fname, json.dumps(kwargs), tf.name], env=e,
		                   capture_output=True, text=True, timeout=timeout)
		if r.returncode != 0:
			raise HarnessError(f'child {fname}{kwargs} env={env} failed rc={r.returncode}: {r.stderr[-3000:]}')
		with open(tf.name, 'rb') as f:
			return pickle.load(f)


if __name__ == '__main__':
	modname, fname, kw, out = sys.argv[1:5]
	from mc import build
	build.assert_tree()
	mod = importlib.import_module(modname)
	sh = getattr(mod, fname)(**json.loads(kw))
	with open(out, 'wb') as f:
		pickle.dump(sh, f)
