"""Regenerates /verif/MANIFEST.json from the property modules that exist (python -m mc.gen_manifest)."""
import importlib
import json
import os

VERIF = os.path.dirname(os.path.dirname(os.path.abspath(__file__)))
ALL = [f'C{i:02d}' for i in range(1, 21)]

ENGINES = [
	dict(name='E-enum', path='mc/core.py', kind_free_text='bounded exhaustive product / deviation-bounded enumeration on the real code, sharded over forkserver workers, compared with pure-Python reference models (mc/refmodel.py)'),
	dict(name='E-sched', path='mc/sched.py', kind_free_text='stateless DFS over choice sequences (preemption/deviation bounded) driving real executors / the compiled OpenMP loop through an LD_PRELOAD scheduler shim'),
	dict(name='E-bfs', path='mc/bfs.py', kind_free_text='explicit-state breadth-first search over operation histories replayed on fresh real objects, canonical state keys'),
	dict(name='E-fault', path='mc/fault.py', kind_free_text='crash-point enumeration: one SIGKILLed real writer process per h5py-call boundary and per write syscall (LD_PRELOAD injector), real loader as judge'),
]


def main():
	checks, na = [], []
	serves = {}
	for pid in ALL:
		try:
			mod = importlib.import_module(f'mc.props.{pid.lower()}')
		except ModuleNotFoundError:
			na.append(dict(property_id=pid, reason='check not built yet in this revision of /verif (planned in DESIGN.md section 4); bounded exhaustive exploration applies, nothing about the technique rules it out'))
			continue
		m = mod.MANIFEST
		serves.setdefault(m['engine'], []).append(pid)
		checks.append(dict(
			property_id=pid,
			quick_cmd=f'./check {pid} --tier quick',
			thorough_cmd=f'./check {pid} --tier thorough',
			evidence_file=f'/verif/evidence/{pid}.json',
			replay_cmd_template=f'./check {pid} --replay {{path}}',
			engine=m['engine'],
			level_claimed=dict(category=mod.LEVEL, text=m['text'], design_ref=f'DESIGN.md section 4, {pid}'),
			level_note=m['note'],
			technique=m['technique'],
		))
	engines = []
	for e in ENGINES:
		if os.path.exists(os.path.join(VERIF, e['path'])) and serves.get(e['name']):
			engines.append(dict(e, serves_properties=serves[e['name']]))
	man = dict(
		version=1,
		setup_cmd='cd /verif && PYTHONPATH=/repo/src:/verif /venv/bin/python -m mc.build',
		hooks=dict(
			guard='GAMBIT_VERIF',
			enable='no source hooks exist: every seam is public API, a harness-side monkeypatch or an LD_PRELOAD shim (DESIGN.md 3.3); the guard name is reserved and unused',
			baseline_off_cmd='cd /repo && /venv/bin/python -m pytest -ra -q -p no:cacheprovider --timeout=900 --continue-on-collection-errors',
			source_commits=[],
			add_only=True,
		),
		engines=engines,
		checks=checks,
		not_applicable=na,
		notes='All checks run the real gambit code of /repo (editable install; native modules rebuilt from their generated C when that changed). VERIF_SEED only rotates supplementary exhaustive slices; the core space of every check is identical for all seeds. known_findings.json lists genuine defects recorded or fixed.',
	)
	if not na:
		man['not_applicable'] = []
	with open(os.path.join(VERIF, 'MANIFEST.json'), 'w') as f:
		json.dump(man, f, indent=1)
		f.write('\n')
	print(f'{len(checks)} checks, {len(na)} not claimed')


if __name__ == '__main__':
	main()
