"""Synthetic database / FASTA / signature-file / CLI-run builders (all through the repo's own public API)."""
import contextlib
import gzip
import io
import os
import shutil
import tempfile


@contextlib.contextmanager
def workdir(tag='w'):
	base = os.environ.get('TMPDIR') or '/dev/shm'
	d = tempfile.mkdtemp(prefix=f'gverif-{tag}-', dir=base)
	try:
		yield d
	finally:
		shutil.rmtree(d, ignore_errors=True)


def kspec(k=4, prefix='AT'):
	from gambit.kmers import KmerSpec
	return KmerSpec(k, prefix)


def write_genome_db(path, taxa, genomes, gset_kw=None):
	"""taxa: [dict(name, parent(index|None), thr, report, rank, ncbi_id)], genomes: [dict(key, description, taxon(index), ...)]."""
	from sqlalchemy import create_engine
	from sqlalchemy.orm import sessionmaker
	from gambit.db.models import Base, ReferenceGenomeSet, Taxon, Genome, AnnotatedGenome
	engine = create_engine(f'sqlite:///{path}')
	Base.metadata.create_all(engine)
	session = sessionmaker(engine)()
	gk = dict(key='verif/synthetic', version='1.0', name='synthetic', description='synthetic db', extra=dict(a=1))
	gk.update(gset_kw or {})
	gset = ReferenceGenomeSet(**gk)
	session.add(gset)
	tobjs = []
	for i, t in enumerate(taxa):
		tobjs.append(Taxon(
			key=t.get('key', f'tax{i}'), name=t['name'], rank=t.get('rank'), description=t.get('description'),
			distance_threshold=t.get('thr'), report=t.get('report', True), ncbi_id=t.get('ncbi_id'),
			genome_set=gset, extra=t.get('extra'),
		))
		session.add(tobjs[-1])
	for i, t in enumerate(taxa):
		if t.get('parent') is not None:
			tobjs[i].parent = tobjs[t['parent']]        # second pass: a parent may come later in the list
	for j, g in enumerate(genomes):
		genome = Genome(key=g['key'], description=g.get('description', g['key']), ncbi_db=g.get('ncbi_db'), ncbi_id=g.get('ncbi_id'),
		                genbank_acc=g.get('genbank_acc'), refseq_acc=g.get('refseq_acc'))
		ag = AnnotatedGenome(genome=genome, genome_set=gset, taxon=None if g.get('taxon') is None else tobjs[g['taxon']], organism=g.get('organism', 'org'))
		session.add(ag)
	session.commit()
	session.close()
	engine.dispose()


def sig_arrays(kspec_, sigs):
	import numpy as np
	return [np.array(sorted(s), dtype=kspec_.index_dtype) for s in sigs]


def write_sigfile(path, kspec_, sigs, ids=None, id_attr=None, container='array', meta_kw=None, **dump_kw):
	import numpy as np
	from gambit.sigs.base import SignatureArray, SignatureList, AnnotatedSignatures, SignaturesMeta, dump_signatures
	arrs = sig_arrays(kspec_, sigs)
	base = SignatureArray(arrs, kspec_, dtype=kspec_.index_dtype) if container == 'array' else SignatureList(arrs, kspec_, dtype=kspec_.index_dtype)
	mk = dict(id='verif', name='verif sigs', version='1.0', id_attr=id_attr)
	mk.update(meta_kw or {})
	ann = AnnotatedSignatures(base, None if ids is None else np.asarray(ids), SignaturesMeta(**mk))
	dump_signatures(path, ann, **dump_kw)
	return ann


def fasta_text(contigs, width=60, eol='\n', final_newline=True, names=None):
	out = []
	for i, c in enumerate(contigs):
		out.append('>' + (names[i] if names else f'contig{i + 1} description {i}'))
		s = c if isinstance(c, str) else c.decode('ascii')
		if width is None or width <= 0:
			out.append(s)
		else:
			out.extend(s[j:j + width] for j in range(0, len(s), width)) if s else None
	txt = eol.join(out)
	if final_newline:
		txt += eol
	return txt


def write_fasta(path, contigs, gz=False, **kw):
	data = fasta_text(contigs, **kw).encode('ascii')
	if gz:
		# deterministic gzip (mtime=0)
		buf = io.BytesIO()
		with gzip.GzipFile(fileobj=buf, mode='wb', mtime=0) as f:
			f.write(data)
		data = buf.getvalue()
	os.makedirs(os.path.dirname(path), exist_ok=True)
	with open(path, 'wb') as f:
		f.write(data)
	return path


def genome_for_kmers(kspec_, kmer_indices, spacer='GGGGCCCC'):
	"""A contig whose signature under kspec_ is exactly the given set of k-mer indices (prefix+kmer blocks separated by a
	spacer that contains neither the prefix nor its reverse complement)."""
	from mc import refmodel as R
	p = kspec_.prefix_str
	blocks = [p + R.ref_kmer(i, kspec_.k).decode() for i in kmer_indices]
	seq = spacer + spacer.join(blocks) + spacer
	got = R.ref_signature(kspec_.k, p.encode(), [seq.encode()])
	return seq, got


def run_cli(args, cwd=None):
	"""Run the gambit CLI in-process.  Returns (exit_code, stdout, exception)."""
	from click.testing import CliRunner
	from gambit.cli import cli
	runner = CliRunner()
	old = os.getcwd()
	try:
		if cwd:
			os.chdir(cwd)
		res = runner.invoke(cli, [str(a) for a in args], catch_exceptions=True)
	finally:
		os.chdir(old)
	exc = res.exception if res.exception is not None and not isinstance(res.exception, SystemExit) else None
	try:
		err = res.stderr
	except Exception:
		err = ''
	return res.exit_code, getattr(res, "stdout", res.output), exc, err


# ------------------------------------------------------------------------------------------------ hidden module-level state

_GLOBALS_SNAPSHOT = None


def _gambit_globals():
	import sys
	import types
	import threading as _threading
	for name, mod in list(sys.modules.items()):
		if not (name == 'gambit' or name.startswith('gambit.')) or mod is None:
			continue
		for attr, val in list(vars(mod).items()):
			if attr.startswith('__'):
				continue
			if isinstance(val, (dict, list, set)) and not isinstance(val, types.ModuleType):
				yield name, attr, val
			elif isinstance(val, _threading.local):
				yield name, attr, val
			elif hasattr(val, 'cache_clear') and callable(getattr(val, 'cache_clear', None)):
				yield name, attr, val


def _shutdown_dropped_executors(val, snap):
	"""A library may keep executors (thread / process pools) in module-level containers.  Dropping them without a shutdown would leave their
	workers running for the rest of the task; shut down those that the reset is about to drop."""
	from concurrent.futures import Executor
	items = list(val.values()) if isinstance(val, dict) else list(val)
	keep = list(snap.values()) if isinstance(snap, dict) else list(snap)
	for x in items:
		if isinstance(x, Executor) and not any(x is k for k in keep):
			end_executor(x)


def end_executor(x):
	"""End an executor the harness does not want to wait for: cancel what is queued, give the workers of a process pool a moment to leave on
	their own, kill those that do not (a polite shutdown(wait=True) of a pool whose workers are blocked can wait forever).  Idempotent."""
	import time
	if getattr(x, '_verif_ended', False):
		return
	try:
		x._verif_ended = True
	except Exception:
		pass
	try:
		procs = list((getattr(x, '_processes', None) or {}).values())
		mt = getattr(x, '_executor_manager_thread', None)
		x.shutdown(wait=False, cancel_futures=True)
		t0 = time.time()
		while time.time() - t0 < 3.0 and (any(p.is_alive() for p in procs) or (mt is not None and mt.is_alive())):
			time.sleep(0.01)
		for p in procs:
			try:
				if p.is_alive():
					p.kill()
			except Exception:
				pass
	except Exception:
		pass


def end_leaked_executors():
	"""End every executor reachable from the gambit package's module-level state (directly or inside a module-level container)."""
	import sys
	from concurrent.futures import Executor
	for name, mod in list(sys.modules.items()):
		if not (name == 'gambit' or name.startswith('gambit.')) or mod is None:
			continue
		for attr, val in list(vars(mod).items()):
			if attr.startswith('__'):
				continue
			try:
				if isinstance(val, Executor):
					end_executor(val)
				elif isinstance(val, dict):
					for x in list(val.values()):
						if isinstance(x, Executor):
							end_executor(x)
				elif isinstance(val, (list, set, tuple)):
					for x in list(val):
						if isinstance(x, Executor):
							end_executor(x)
			except Exception:
				pass


def reset_gambit_globals():
	"""Histories replayed 'on fresh objects' inside one interpreter still share gambit's module-level mutable state (caches, registries).
	The first call snapshots every module-level dict / list / set of the gambit package; later calls restore their contents in place and
	clear functools caches, so that every history starts from the state of a freshly imported library."""
	global _GLOBALS_SNAPSHOT
	import copy
	if _GLOBALS_SNAPSHOT is None:
		_GLOBALS_SNAPSHOT = {}
		for mod, attr, val in _gambit_globals():
			if isinstance(val, (dict, list, set)):
				_GLOBALS_SNAPSHOT[(mod, attr)] = copy.copy(val)
		return
	for mod, attr, val in _gambit_globals():
		if hasattr(val, 'cache_clear'):
			val.cache_clear()
			continue
		if not isinstance(val, (dict, list, set)):
			val.__dict__.clear()          # threading.local: the calling thread's slots
			continue
		snap = _GLOBALS_SNAPSHOT.get((mod, attr))
		if snap is None:
			snap = type(val)()          # a container that did not exist at snapshot time starts empty
		_shutdown_dropped_executors(val, snap)
		if isinstance(val, dict):
			if val != snap or list(val) != list(snap):
				val.clear(); val.update(snap)
		elif isinstance(val, list):
			if val != snap:
				val[:] = snap
		else:
			if val != snap:
				val.clear(); val.update(snap)
