"""E-sched: stateless exploration of choice sequences, deviation (preemption) bounded, depth-first.

run(prefix) executes ONE complete execution: it replays the choice prefix, takes choice 0 at every later point, and returns
(trace, observation) with trace = [(n_enabled, running_still_enabled, taken), ...].  Canonical order of the enabled set: the running
actor first if still enabled, then ascending ids; so taking a choice != 0 while the running actor is still enabled is a preemption.
An out-of-range choice or a trace that diverges from its prefix is a HarnessError, never a violation.
"""
from mc.core import HarnessError


def explore(run, bound, max_execs=None):
	"""Yields (choices, trace, observation) for every execution within the preemption bound."""
	stack = [[]]
	n = 0
	while stack:
		prefix = stack.pop()
		trace, obs = run(prefix)
		taken = [t[2] for t in trace]
		if taken[:len(prefix)] != list(prefix) or len(trace) < len(prefix):
			raise HarnessError(f'schedule diverged from its prefix: prefix={prefix} taken={taken}')
		if any(t != 0 for t in taken[len(prefix):]):
			raise HarnessError(f'non-default choice after the prefix: prefix={prefix} taken={taken}')
		n += 1
		yield taken, trace, obs
		if max_execs is not None and n >= max_execs:
			return
		cost = 0
		costs = []
		for (ne, run_en, tk) in trace:
			costs.append(cost)
			if tk != 0 and run_en:
				cost += 1
		for i in range(len(trace) - 1, len(prefix) - 1, -1):
			ne, run_en, tk = trace[i]
			c = costs[i] + (1 if run_en else 0)
			if c > bound:
				continue
			for alt in range(ne - 1, 0, -1):
				stack.append(taken[:i] + [alt])


def preemptions(trace):
	return sum(1 for (ne, run_en, tk) in trace if tk != 0 and run_en)
