"""E-sched: stateless exploration of choice sequences, deviation (preemption) bounded, depth-first.

run(prefix) executes ONE complete execution: it replays the choice prefix, takes choice 0 at every later point, and returns
(trace, observation) with trace = [(n_enabled, running_still_enabled, taken), ...].  Canonical order of the enabled set: the running
actor first if still enabled, then ascending ids; so taking a choice != 0 while the running actor is still enabled is a preemption.
An out-of-range choice or a trace that diverges from its prefix is a HarnessError, never a violation.
"""
from mc.core import HarnessError


def explore(run, bound, max_execs=None):
	"""Yields (choices, trace, observation) for every execution within the preemption bound."""
	stack = [[]]
	n = 0
	while stack:
		prefix = stack.pop()
		trace, obs = run(prefix)
		taken = [t[2] for t in trace]
		if taken[:len(prefix)] != list(prefix) or len(trace) < len(prefix):
			raise HarnessError(f'schedule diverged from its prefix: prefix={prefix} taken={taken}')
		if any(t != 0 for t in taken[len(prefix):]):
			raise HarnessError(f'non-default choice after the prefix: prefix={prefix} taken={taken}')
		n += 1
		yield taken, trace, obs
		if max_execs is not None and n >= max_execs:
			return
		cost = 0
		costs = []
		for (ne, run_en, tk) in trace:
			costs.append(cost)
			if tk != 0 and run_en:
				cost += 1
		for i in range(len(trace) - 1, len(prefix) - 1, -1):
			ne, run_en, tk = trace[i]
			c = costs[i] + (1 if run_en else 0)
			if c > bound:
				continue
			for alt in range(ne - 1, 0, -1):
				stack.append(taken[:i] + [alt])


def preemptions(trace):
	return sum(1 for (ne, run_en, tk) in trace if tk != 0 and run_en)


# ---------------------------------------------------------------------------------------------------------------------
# Line-granularity interleaving of Python thread bodies (sys.settrace baton)

import sys
import threading


class LineInterleaver:
	"""Runs N callables in N real threads, exactly one at a time; every 'line' event in a source file accepted by `watch(filename)`
	is a scheduling point.  run(prefix) -> (trace, results) in the format explore() expects."""

	def __init__(self, bodies, watch, timeout=30, max_active=None, on_done=None):
		self.bodies = bodies
		self.watch = watch
		self.timeout = timeout
		self.max_active = max_active     # pool semantics: at most this many bodies started and unfinished; bodies start in index order
		self.on_done = on_done           # callback(i, result) when body i finishes (e.g. complete its future)

	def run(self, prefix):
		n = len(self.bodies)
		sems = [threading.Semaphore(0) for _ in range(n)]
		sched = threading.Semaphore(0)
		state = ['ready'] * n          # ready / done
		results = [None] * n
		watch = self.watch
		timeout = self.timeout
		failed = []

		def make_tracer(i):
			def local(frame, event, arg):
				if event == 'line':
					sched.release()
					if not sems[i].acquire(timeout=timeout):
						failed.append(i)
						raise SystemExit
				return local

			def tracer(frame, event, arg):
				if event == 'call' and watch(frame.f_code.co_filename):
					return local
				return None
			return tracer

		def body(i):
			if not sems[i].acquire(timeout=timeout):
				failed.append(i)
				return
			sys.settrace(make_tracer(i))
			try:
				results[i] = ('ok', self.bodies[i]())
			except BaseException as e:
				results[i] = ('exc', repr(e))
			finally:
				sys.settrace(None)
				if self.on_done is not None:
					try:
						self.on_done(i, results[i])
					except BaseException as e:
						results[i] = ('exc', 'on_done: ' + repr(e))
				state[i] = 'done'
				sched.release()

		threads = [threading.Thread(target=body, args=(i,), daemon=True) for i in range(n)]
		for t in threads:
			t.start()
		trace = []
		running = -1
		started = set()
		while any(s != 'done' for s in state):
			def can_run(i):
				if state[i] != 'ready':
					return False
				if i in started or self.max_active is None:
					return True
				active = sum(1 for j in started if state[j] != 'done')
				return active < self.max_active and all(j in started for j in range(i))
			run_en = running >= 0 and can_run(running)
			order = ([running] if run_en else []) + [i for i in range(n) if can_run(i) and not (run_en and i == running)]
			if not order:
				raise HarnessError('interleaver: no body can run')
			c = prefix[len(trace)] if len(trace) < len(prefix) else 0
			if not 0 <= c < len(order):
				raise HarnessError(f'choice {c} out of range at point {len(trace)} ({len(order)} enabled)')
			trace.append((len(order), 1 if run_en else 0, c))
			running = order[c]
			started.add(running)
			sems[running].release()
			if not sched.acquire(timeout=timeout):
				raise HarnessError('interleaver: running thread never yielded')
		for t in threads:
			t.join(timeout)
		if failed:
			raise HarnessError(f'interleaver: threads {failed} starved')
		return trace, results
