"""Anchor coverage (reporting only, never a verdict): which of the line ranges named in a property's anchors.mechanism[].where were
executed by a representative slice of the check.  A harness that explores a million cases without ever entering an anchored function
would be vacuous in a way no outcome counter shows; this makes it visible in the evidence file.

Run as a subprocess by mc.core:  python -m mc.anchors <ID> <tier> <budget seconds>   -> JSON on stdout.
Representative slice = the first task of every distinct task function of the plan, run in-process under `coverage` until the budget is used
(an interval timer raises inside the task; whatever was covered until then is reported).  Work done in child processes (schedule
explorations, crash-point writers, fresh interpreters, process-pool workers) is not traced: ranges only reached there show as not hit.
Native (.pyx/.pxd) anchors cannot be line-traced and are marked 'native'.  Line numbers are those of the pinned commit; the fix commits
shifted a few functions by up to 10 lines, so a range is reported with the executed lines found inside it and 5 lines around it.
"""
import importlib
import json
import os
import re
import signal
import sys
import time


class _Deadline(BaseException):
	pass


def parse_where(where):
	out = []
	cur = None
	for tok in re.split(r'[;\s]+', where):
		m = re.match(r'(src/[\w/\.]+):([\d,\-]+)', tok)
		if m:
			cur = m.group(1)
			spec = m.group(2)
		elif cur and re.fullmatch(r'[\d,\-]+,?', tok):
			spec = tok
		else:
			continue
		for part in spec.strip(',').split(','):
			if not part:
				continue
			a, _, b = part.partition('-')
			out.append((cur, int(a), int(b or a)))
	return out


def main(pid, tier, budget):
	import coverage
	from mc import build
	props = {}
	with open(os.path.join(os.path.dirname(os.path.dirname(os.path.abspath(__file__))), 'properties.jsonl')) as f:
		for line in f:
			p = json.loads(line)
			props[p['id']] = p
	anchors = props[pid]['anchors']['mechanism']
	files = sorted({os.path.join(build.REPO, fn) for a in anchors for fn, _, _ in parse_where(a['where']) if fn.endswith('.py')})
	mod = importlib.import_module(f'mc.props.{pid.lower()}')
	tasks = mod.plan(tier, 0)
	# representative slice: first, middle and last task of every distinct task function
	by_fn = {}
	for fname, kw in tasks:
		by_fn.setdefault(fname, []).append(kw)
	reps = []
	for pick in (0, -1, None):
		for fname, kws in by_fn.items():
			i = len(kws) // 2 if pick is None else pick
			if (fname, i % len(kws)) not in [(f, j) for f, j, _ in reps]:
				reps.append((fname, i % len(kws), kws[i]))
	reps = [(f, kw) for f, _, kw in reps]
	if not files:
		# only native anchors: nothing can be line-traced
		report = [dict(where=a['where'], name=a.get('name'), status='native (not line-traceable)') for a in anchors]
		sys.stdout.write('ANCHORS ' + json.dumps(dict(anchor_ranges_total=0, anchor_ranges_hit=0, anchor_ranges=report, traced_tasks=[], budget_s=budget,
		                                             note='all anchors of this property are in Cython sources')) + '\n')
		return
	cov = coverage.Coverage(include=files, data_file=None, concurrency=['thread'])
	deadline = time.time() + budget

	def on_alarm(signum, frame):
		raise _Deadline()
	signal.signal(signal.SIGALRM, on_alarm)
	ran = []
	cov.start()
	try:
		for fname, kw in reps:
			left = deadline - time.time()
			if left <= 0.2:
				break
			signal.setitimer(signal.ITIMER_REAL, max(0.2, left / max(1, len(reps) - len(ran))), 0.2)      # re-fires in case a library swallows the exception
			try:
				getattr(mod, fname)(**kw)
				ran.append(fname)
			except _Deadline:
				ran.append(fname + ' (cut by budget)')
			except BaseException as e:
				ran.append(f'{fname} (raised {type(e).__name__})')
			finally:
				signal.setitimer(signal.ITIMER_REAL, 0)
	finally:
		cov.stop()
	data = cov.get_data()
	executed = {}
	for fn in files:
		executed[fn] = set(data.lines(fn) or [])
	report = []
	hit = total = 0
	for a in anchors:
		rs = parse_where(a['where'])
		if not rs:
			report.append(dict(where=a['where'], status='unparsed'))
			continue
		for fn, lo, hi in rs:
			if not fn.endswith('.py'):
				report.append(dict(where=f'{fn}:{lo}-{hi}', name=a.get('name'), status='native (not line-traceable)'))
				continue
			ex = executed.get(os.path.join(build.REPO, fn), set())
			inside = sorted(x for x in ex if lo - 5 <= x <= hi + 5)
			total += 1
			if inside:
				hit += 1
			report.append(dict(where=f'{fn}:{lo}-{hi}', name=a.get('name'), status='hit' if inside else 'NOT hit in the traced slice', executed_lines_in_range=len(inside)))
	out = dict(anchor_ranges_total=total, anchor_ranges_hit=hit, anchor_ranges=report, traced_tasks=ran, budget_s=budget,
	           note='in-process slice only; child processes are not traced; reporting only')
	# tasks may have started threads / pools that are still alive: print and leave hard
	sys.stdout.write('ANCHORS ' + json.dumps(out) + '\n')
	sys.stdout.flush()
	os._exit(0)


if __name__ == '__main__':
	main(sys.argv[1].upper(), sys.argv[2], float(sys.argv[3]))
