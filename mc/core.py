"""Engines, evidence writer, violation/replay writer, known-findings matcher.

A property module (mc/props/cNN.py) provides

    ID, LEVEL, RULE, ASSUMPTIONS
    plan(tier, seed)      -> list of (task_function_name, kwargs)   -- disjoint shards of one finite space
    <task functions>(**kwargs) -> Shard
    finalize(agg, tier)   -> None (may add coverage keys / raise Vacuous)
    replay(case)          -> list of violation dicts (empty when the case passes)

Tasks run in forkserver worker processes (libgomp is not fork safe, and gambit's own process
pools need non-daemonic parents).  Every shard enumerates its slice *completely*; nothing is
sampled.  `exhaustive` is reported true only when no shard hit a cap.
"""
import hashlib
import importlib
import json
import multiprocessing
import os
import subprocess
import sys
import time
import traceback
from concurrent.futures import ProcessPoolExecutor, as_completed

VERIF = os.path.dirname(os.path.dirname(os.path.abspath(__file__)))
EVIDENCE_DIR = os.environ.get('VERIF_EVIDENCE_DIR') or os.path.join(VERIF, 'evidence')
REPLAY_DIR = os.environ.get('VERIF_REPLAY_DIR') or os.path.join(VERIF, 'replays')
FINDINGS = os.path.join(VERIF, 'known_findings.json')
MAX_VIOL_PER_SHARD = 5
MAX_SAMPLES = 6


class HarnessError(Exception):
	"""The harness itself misbehaved (divergent replay, stuck controller...). Never a VIOLATION."""


class Vacuous(HarnessError):
	"""The exploration did not reach what it claims to reach."""


class Shard:
	"""Result of one task: counts measured by the task itself."""

	def __init__(self):
		self.evals = 0            # executions of real gambit code compared with the model
		self.nontrivial = 0       # distinct non-trivial cases (cases are enumerated once each)
		self.outcomes = set()     # small hashable digests of observed outcomes (distinctness of behaviour)
		self.counters = {}        # non-vacuity counters
		self.violations = []      # dicts: {kind, case, expected, observed, [finding_key]}
		self.nviol = 0
		self.nviol_unkeyed = 0
		self.samples = []
		self.states = 0
		self.transitions = 0
		self.traces = 0
		self.capped = None        # reason string when a cap cut the enumeration
		self.extra = {}

	def count(self, name, n=1):
		self.counters[name] = self.counters.get(name, 0) + n

	def outcome(self, obj):
		if len(self.outcomes) < 200000:
			self.outcomes.add(digest(obj, 8))

	def sample(self, obj):
		if len(self.samples) < 2:
			self.samples.append(obj)

	def violation(self, kind, case, expected=None, observed=None, finding_key=None):
		"""finding_key: set by a check only when the violation is exactly of the shape of a recorded known finding."""
		self.nviol += 1
		same = sum(1 for v in self.violations if v.get('finding_key') == finding_key)
		if same < (MAX_VIOL_PER_SHARD if finding_key is None else 2):
			v = dict(kind=kind, case=case, expected=expected, observed=observed)
			if finding_key is not None:
				v['finding_key'] = finding_key
			self.violations.append(v)
		if finding_key is None:
			self.nviol_unkeyed = getattr(self, 'nviol_unkeyed', 0) + 1

	def pack(self):
		d = dict(self.__dict__)
		return d


def digest(obj, n=16):
	return hashlib.sha256(json.dumps(obj, sort_keys=True, default=_jdefault).encode()).hexdigest()[:n]


def _jdefault(o):
	import numpy as np
	if isinstance(o, (bytes, bytearray)):
		return {'__bytes__': bytes(o).hex()}
	if isinstance(o, np.ndarray):
		return {'__nd__': o.tolist(), 'dtype': str(o.dtype)}
	if isinstance(o, np.generic):
		return o.item()
	if isinstance(o, (set, frozenset)):
		return sorted(o, key=repr)
	if isinstance(o, tuple):
		return list(o)
	return repr(o)


def jdump(obj, **kw):
	return json.dumps(obj, default=_jdefault, **kw)


def unbytes(o):
	"""Inverse of the bytes encoding used in replay files."""
	if isinstance(o, dict):
		if set(o) == {'__bytes__'}:
			return bytes.fromhex(o['__bytes__'])
		return {k: unbytes(v) for k, v in o.items()}
	if isinstance(o, list):
		return [unbytes(v) for v in o]
	return o


# ---------------------------------------------------------------------------------------------
# worker side

def _run_task(modname, fname, kwargs):
	t0 = time.time()
	from mc import build
	build.assert_tree()
	# a forkserver worker inherits 'forkserver' as its default start method; gambit's own pools must see the platform default
	# (fork on Linux), as they would in a user's process
	multiprocessing.set_start_method('fork', force=True)
	mod = importlib.import_module(modname)
	try:
		try:
			sh = getattr(mod, fname)(**kwargs)
		finally:
			# a library that keeps thread / process pools in module-level state would otherwise take them into the next task of this worker
			# and into interpreter exit
			from mc import fixtures
			fixtures.end_leaked_executors()
	except HarnessError:
		raise
	except Exception as e:
		if _raised_by_code_under_test(e):
			# the real code raised where the harness did not expect it to: a verdict on the code, replayable by re-running the task
			sh = Shard()
			sh.evals = 1
			sh.violation('unexpected-exception-in-gambit', dict(task=[fname, kwargs]), 'no exception', traceback.format_exc()[-1500:])
		else:   # a crash of the harness is not a verdict
			raise HarnessError(f'task {fname}{kwargs} crashed: {e!r}\n{traceback.format_exc()}')
	d = sh.pack()
	d['task'] = [fname, kwargs]
	d['wall'] = time.time() - t0
	return d


def _raised_by_code_under_test(e):
	"""True when the traceback passes through gambit's sources after the last harness frame."""
	from mc import build
	src = os.path.realpath(build.SRC) + os.sep
	frames = [f.filename for f in traceback.extract_tb(e.__traceback__)]
	last_mc = max([i for i, f in enumerate(frames) if os.path.realpath(f).startswith(VERIF + os.sep)], default=-1)
	return any(os.path.realpath(f).startswith(src) for f in frames[last_mc + 1:])


def run_tasks(modname, tasks, workers=None, in_process=False):
	"""Run all tasks; returns list of packed shards in task order."""
	if in_process or len(tasks) == 1 and not os.environ.get('VERIF_FORCE_POOL'):
		return [_run_task(modname, f, kw) for f, kw in tasks]
	workers = workers or min(len(tasks), int(os.environ.get('VERIF_WORKERS', '16')))
	ctx = multiprocessing.get_context('forkserver')
	out = [None] * len(tasks)
	# watchdog: a task that does not come back (non-terminating code under test, stuck controller) makes the run
	# INCONCLUSIVE (exit 2) - never a VIOLATION, since no failing input can be shown
	limit = float(os.environ.get('VERIF_TASK_TIMEOUT') or (3600 if os.environ.get('VERIF_TIER_RUNNING') != 'thorough' else 7200))
	ex = ProcessPoolExecutor(max_workers=workers, mp_context=ctx)
	try:
		futs = {ex.submit(_run_task, modname, f, kw): i for i, (f, kw) in enumerate(tasks)}
		# progress-based: the limit is the longest time WITHOUT any task completing (a long run of many tasks is not a hang)
		from concurrent.futures import wait, FIRST_COMPLETED
		pending = set(futs)
		while pending:
			done, pending = wait(pending, timeout=limit, return_when=FIRST_COMPLETED)
			if not done:
				stuck = [tasks[futs[f]] for f in pending]
				for p in list(ex._processes.values()):
					p.kill()
				raise HarnessError(f'{len(stuck)} task(s) still running and none finished within the last {limit:.0f}s (possible non-termination), first: {stuck[0]}')
			for fut in done:
				out[futs[fut]] = fut.result()
	finally:
		ex.shutdown(wait=False, cancel_futures=True)
	return out


# ---------------------------------------------------------------------------------------------
# parent side

class Agg:
	def __init__(self, shards):
		self.shards = shards
		self.evals = sum(s['evals'] for s in shards)
		self.nontrivial = sum(s['nontrivial'] for s in shards)
		self.outcomes = set().union(*[s['outcomes'] for s in shards]) if shards else set()
		self.counters = {}
		for s in shards:
			for k, v in s['counters'].items():
				self.counters[k] = self.counters.get(k, 0) + v
		self.violations = [v for s in shards for v in s['violations']]
		self.nviol = sum(s['nviol'] for s in shards)
		self.samples = [x for s in shards for x in s['samples']][:MAX_SAMPLES]
		self.states = sum(s['states'] for s in shards)
		self.transitions = sum(s['transitions'] for s in shards)
		self.traces = sum(s['traces'] for s in shards)
		self.capped = [s['capped'] for s in shards if s['capped']]
		self.coverage_extra = {}
		self.extra = [s['extra'] for s in shards if s['extra']]

	def require(self, name, minimum=1):
		if self.counters.get(name, 0) < minimum:
			raise Vacuous(f'non-vacuity counter {name!r} = {self.counters.get(name, 0)} < {minimum}')


def anchor_coverage(pid, tier):
	"""Reporting only (see mc/anchors.py): which anchored line ranges a representative in-process slice of the check executes."""
	budget = 4 if tier == 'quick' else 20
	import shutil
	import tempfile
	tmp = tempfile.mkdtemp(prefix='gverif-anchors-', dir=os.environ.get('TMPDIR') or '/dev/shm')      # whatever the cut-short slice leaves behind goes with it
	try:
		# output through a file, own session: pool workers forked by the traced slice may outlive it and would keep a pipe open
		outp = os.path.join(tmp, 'anchors.out')
		with open(outp, 'w') as fo:
			proc = subprocess.Popen([sys.executable, '-m', 'mc.anchors', pid, tier, str(budget)], stdout=fo, stderr=subprocess.DEVNULL,
			                        env=dict(os.environ, TMPDIR=tmp), start_new_session=True)
			try:
				proc.wait(timeout=budget * 2 + 10)
			except subprocess.TimeoutExpired:
				pass
			finally:
				try:
					os.killpg(proc.pid, 9)
				except OSError:
					pass
		with open(outp) as fi:
			for line in fi.read().splitlines():
				if line.startswith('ANCHORS '):
					return json.loads(line[8:])
		return dict(status='unavailable', detail='no report within the time limit')
	except Exception as e:
		return dict(status='unavailable', detail=repr(e)[:300])
	finally:
		shutil.rmtree(tmp, ignore_errors=True)


def load_findings():
	if not os.path.exists(FINDINGS):
		return {'known': [], 'fixed': []}
	with open(FINDINGS) as f:
		return json.load(f)


def match_finding(pid, v, findings):
	"""A violation is a known finding only if its finding_key equals the entry's key exactly."""
	fk = v.get('finding_key')
	if fk is None:
		return None
	for e in findings.get('known', []):
		if e['property'] == pid and e['key'] == fk:
			return e
	return None


def write_replay(pid, v):
	os.makedirs(REPLAY_DIR, exist_ok=True)
	body = dict(property=pid, kind=v['kind'], case=v['case'], expected=v.get('expected'), observed=v.get('observed'))
	text = jdump(body, indent=1, sort_keys=True)
	path = os.path.join(REPLAY_DIR, f'{pid}-{hashlib.sha256(text.encode()).hexdigest()[:12]}.json')
	with open(path, 'w') as f:
		f.write(text + '\n')
	return path


def validate_evidence(path):
	"""jsonschema lives in the tooling venv only."""
	code = (
		'import json,sys,jsonschema;'
		's=json.load(open("/root/.vp/EVIDENCE.schema.json"));'
		'jsonschema.validate(json.load(open(sys.argv[1])),s)'
	)
	for py in ('python3-vt', '/opt/veriftools/pyvenv/bin/python'):
		try:
			r = subprocess.run([py, '-c', code, path], capture_output=True, text=True, timeout=120)
		except FileNotFoundError:
			continue
		if r.returncode != 0:
			raise HarnessError('evidence does not validate: ' + r.stderr[-2000:])
		return True
	return False   # no validator available; not fatal


def write_evidence(mod, tier, seed, agg, wall, nviol_new, known_lines, assumptions_extra=()):
	os.makedirs(EVIDENCE_DIR, exist_ok=True)
	cov = dict(
		evaluations=agg.evals,
		distinct_nontrivial=agg.nontrivial,
		rule=mod.RULE,
		samples=agg.samples,
		exhaustive=not agg.capped,
		distinct_outcomes=len(agg.outcomes),
		counters=dict(sorted(agg.counters.items())),
		shards=len(agg.shards),
	)
	if agg.capped:
		cov['caps_hit'] = agg.capped
	if mod.LEVEL == 'model_checking':
		cov.update(states=agg.states, transitions=agg.transitions, traces_validated_against_impl=agg.traces)
	cov.update(agg.coverage_extra)
	ev = dict(
		property_id=mod.ID, tier=tier, seed=seed, level=mod.LEVEL, coverage=cov,
		assumptions=list(mod.ASSUMPTIONS) + list(assumptions_extra),
		wall_s=round(wall, 3), violations=nviol_new,
		known_findings_reported=known_lines,
	)
	path = os.path.join(EVIDENCE_DIR, f'{mod.ID}.json')
	tmp = path + '.tmp'
	with open(tmp, 'w') as f:
		f.write(jdump(ev, indent=1) + '\n')
	os.replace(tmp, path)
	if nviol_new == 0:
		validate_evidence(path)     # a run that found violations reports them even if its coverage counters are degenerate
	return path


def main(argv=None):
	import argparse
	ap = argparse.ArgumentParser()
	ap.add_argument('pid')
	ap.add_argument('--tier', default=os.environ.get('VERIF_TIER') or 'quick', choices=['quick', 'thorough'])
	ap.add_argument('--replay')
	ap.add_argument('--serial', action='store_true')
	ap.add_argument('--only', help='substring filter on task names (debugging; evidence marked non-exhaustive)')
	args = ap.parse_args(argv)
	pid = args.pid.upper()
	seed = int(os.environ.get('VERIF_SEED') or 0)
	modname = f'mc.props.{pid.lower()}'

	from mc import build
	notes = build.prepare()
	mod = importlib.import_module(modname)

	if args.replay:
		with open(args.replay) as f:
			body = unbytes(json.load(f))
		if body.get('kind') == 'unexpected-exception-in-gambit':
			fname, kw = body['case']['task']
			d = _run_task(modname, fname, kw)
			vs = d['violations']
		else:
			vs = mod.replay(body['case'], body.get('kind'))
		if vs:
			findings = load_findings()
			for v in vs:
				e = match_finding(pid, v, findings)
				if e:
					print(f'KNOWN-FINDING: property={pid} {e["text"]}')
				else:
					print(f'VIOLATION property={pid} replay={args.replay}')
					print('  ' + jdump(v)[:1500])
					return 1
			return 0
		print(f'replay passes: property={pid} {args.replay}')
		return 0

	t0 = time.time()
	if os.path.isdir(REPLAY_DIR):       # replays of earlier runs of this property are stale
		for fn in os.listdir(REPLAY_DIR):
			if fn.startswith(pid + '-'):
				os.unlink(os.path.join(REPLAY_DIR, fn))
	os.environ['VERIF_TIER_RUNNING'] = args.tier
	tasks = mod.plan(args.tier, seed)
	capped_by_filter = False
	if args.only:
		tasks = [t for t in tasks if args.only in t[0] or args.only in json.dumps(t[1], default=str)]
		capped_by_filter = True
	try:
		shards = run_tasks(modname, tasks, in_process=args.serial)
		agg = Agg(shards)
		if capped_by_filter:
			agg.capped.append('task filter --only ' + args.only)
		findings = load_findings()
		new, known = [], {}
		for v in agg.violations:
			e = match_finding(pid, v, findings)
			if e:
				known.setdefault(e['key'], [e, 0])[1] += 1
			else:
				new.append(v)
		# violations counted but not kept (beyond the per-shard cap): the un-keyed ones are new by definition
		hidden_new = 0
		for s_ in shards:
			kept_unkeyed = sum(1 for v in s_['violations'] if v.get('finding_key') is None)
			hidden_new += max(0, s_.get('nviol_unkeyed', 0) - kept_unkeyed)
		if not new and not capped_by_filter:
			mod.finalize(agg, args.tier)
			if not os.environ.get('VERIF_NO_ANCHORS'):
				agg.coverage_extra['anchor_coverage'] = anchor_coverage(pid, args.tier)
		known_lines = []
		for key, (e, n) in sorted(known.items()):
			line = f'KNOWN-FINDING: property={pid} {e["text"]}'
			print(line)
			known_lines.append(line)
		replay_paths = []
		seen_kinds = {}
		new.sort(key=getattr(mod, 'violation_key', lambda v: len(jdump(v['case']))))     # simplest counterexample first
		for v in new:
			# one replay file per distinct kind (first = simplest by enumeration order), at most 5
			k = v['kind']
			if seen_kinds.get(k, 0) >= 1 or len(replay_paths) >= 5:
				continue
			seen_kinds[k] = 1
			replay_paths.append(write_replay(pid, v))
		wall = time.time() - t0
		evp = write_evidence(mod, args.tier, seed, agg, wall, len(new) + hidden_new, known_lines, notes)
	except HarnessError as e:
		print(f'INCONCLUSIVE property={pid}: harness error: {e}', file=sys.stderr)
		return 2
	slow = sorted(shards, key=lambda s: -s['wall'])[:1]
	print(f'{pid} tier={args.tier} seed={seed} tasks={len(tasks)} evaluations={agg.evals} nontrivial={agg.nontrivial} '
	      f'distinct_outcomes={len(agg.outcomes)} states={agg.states} transitions={agg.transitions} traces={agg.traces} '
	      f'exhaustive={not agg.capped} violations={len(new) + hidden_new} known={sum(n for _, n in known.values())} '
	      f'wall={wall:.1f}s slowest_task={slow[0]["task"][0] if slow else None}:{slow[0]["wall"]:.1f}s')
	print('  counters: ' + jdump(dict(sorted(agg.counters.items()))))
	print(f'  evidence: {evp}')
	if new:
		for p in replay_paths:
			print(f'VIOLATION property={pid} replay={p}')
		return 1
	return 0


if __name__ == '__main__':
	sys.exit(main())


# ---------------------------------------------------------------------------------------------
# E-enum helper: default vector plus every vector that differs from it in at most d dimensions

def deviations(dims, d):
	"""dims: dict name -> ordered list of values (first = default).  Yields dicts.  d=None -> full product.
	The sequential analogue of a preemption bound: 0 deviations, then 1, then 2 ..."""
	import itertools
	names = list(dims)
	if d is None or d >= len(names):
		for combo in itertools.product(*[dims[n] for n in names]):
			yield dict(zip(names, combo))
		return
	default = {n: dims[n][0] for n in names}
	for r in range(0, d + 1):
		for chosen in itertools.combinations(names, r):
			for combo in itertools.product(*[dims[n][1:] for n in chosen]):
				v = dict(default)
				v.update(zip(chosen, combo))
				yield v
