"""C17 - the tree command outputs the UPGMA dendrogram of the pairwise distances.

Through the real CLI (gambit tree -s SIGFILE / GENOMES... / -l LIST): every multiset of n = 2..4 (thorough 6) signatures from the 8 subsets of a 3-element
k-mer universe (zero distances, ties, all-equidistant, empty signatures), each in three leaf orders; label sets with blanks, colons, parentheses and quotes;
a slice through FASTA files and list files.
Oracle: own Newick reader; leaves = labels exactly once; binary; branch lengths >= 0; all leaves at equal root distance; the matrix of leaf-to-leaf path
lengths equals 2 x the cophenetic matrix of SOME tie-break of greedy average linkage on the exact float32 distance matrix (refmodel.ref_upgma_all explores
every tie-break in exact rationals), within the printed precision.
"""
import itertools
import os
from fractions import Fraction
import numpy as np
from mc.core import Shard
from mc import fixtures, clifix
from mc import refmodel as R

ID = 'C17'
LEVEL = 'exploration'
RULE = ('every multiset of n signatures from the 8 subsets of a 3-element universe x 3 leaf orders (+ label sets, + file channels); one case = one CLI invocation; '
        'non-trivial = at least two different pairwise distances occur among the leaves (the topology is constrained)')
ASSUMPTIONS = [
	'n <= 4 (quick) / 6 (thorough) leaves; signatures over a 3-element universe (distances 0, 1/3, 1/2, 2/3, 1)',
	'tolerance: 1e-6 + 0.5e-5 per edge on the path (Newick output prints 5 decimals)',
	'where ties make the UPGMA tree non-unique any tie-break is accepted - demanding one would be more than the statement says',
]

UNIVERSE = [1, 2, 3]
SUBSETS = [[x for b, x in enumerate(UNIVERSE) if m >> b & 1] for m in range(8)]
SPECIAL_LABELS = ['plain', 'with blank', 'co:lon', '(paren)', "quo'te", 'semi;colon', 'comma,x', 'ünï',
                  # stored IDs that look like paths / file names (a signature file's IDs are labels as they are, not file names to be stripped)
                  'refseq/GCF_000005845', 'genbank/GCF_000005845', 'isolate_7.fa', 'run12/contigs.fasta.gz', 'asm.fna', 'reads.gz', 'a.b/c.fasta/x']


def plan(tier, seed):
	nmax = 4 if tier == 'quick' else 6
	nsh = 16 if tier == 'quick' else 64
	return [('t_multisets', dict(nmax=nmax, shard=s, nshards=nsh)) for s in range(nsh)] + [('t_channels', dict()), ('t_deep', dict())]


# ------------------------------------------------------------------------------------------- Newick

def parse_newick(text):
	"""-> nested (name, length, children).  Handles quoted labels."""
	s = text.strip()
	if not s.endswith(';'):
		raise ValueError('no terminating semicolon')
	pos = [0]

	def label():
		if pos[0] < len(s) and s[pos[0]] == "'":
			pos[0] += 1
			out = []
			while True:
				c = s[pos[0]]
				if c == "'":
					if pos[0] + 1 < len(s) and s[pos[0] + 1] == "'":
						out.append("'")
						pos[0] += 2
						continue
					pos[0] += 1
					break
				out.append(c)
				pos[0] += 1
			return ''.join(out)
		st = pos[0]
		while pos[0] < len(s) and s[pos[0]] not in ',():;':
			pos[0] += 1
		return s[st:pos[0]]

	def node():
		children = []
		if s[pos[0]] == '(':
			pos[0] += 1
			while True:
				children.append(node())
				if s[pos[0]] == ',':
					pos[0] += 1
					continue
				if s[pos[0]] == ')':
					pos[0] += 1
					break
				raise ValueError(f'unexpected {s[pos[0]]!r} at {pos[0]}')
		name = label()
		length = None
		if pos[0] < len(s) and s[pos[0]] == ':':
			pos[0] += 1
			st = pos[0]
			while pos[0] < len(s) and s[pos[0]] not in ',();':
				pos[0] += 1
			length = float(s[st:pos[0]])
		return (name, length, children)
	root = node()
	if s[pos[0]] != ';':
		raise ValueError('trailing text')
	return root


def leaf_paths(root):
	"""-> {leaf name: [(edge id, length) from root to leaf]}, all edges, is_binary"""
	out = {}
	binary = [True]
	neg = [False]
	eid = [0]
	dup = [False]

	def rec(n, path):
		name, length, children = n
		if children:
			if len(children) != 2:
				binary[0] = False
			for c in children:
				eid[0] += 1
				l = c[1] if c[1] is not None else 0.0
				if l < 0:        # -0.0 is not < 0
					neg[0] = True
				rec(c, path + [(eid[0], l)])
		else:
			if name in out:
				dup[0] = True
			out[name] = path
	rec(root, [])
	return out, binary[0], neg[0], dup[0]


def check_tree(sh, text, labels, arrs, case):
	"""labels in leaf order of the input; arrs = their signatures."""
	from gambit.metric import jaccarddist
	from mc.props.c02 import f32bits
	n = len(labels)
	try:
		root = parse_newick(text)
	except Exception as e:
		sh.violation('newick-unparseable', case, 'Newick', repr(e) + ' ' + text[:200])
		return False
	paths, binary, neg, dup = leaf_paths(root)
	if dup or sorted(paths) != sorted(labels):
		sh.violation('leaves-are-not-the-labels', case, sorted(labels), sorted(paths))
		return False
	if not binary:
		sh.violation('tree-not-binary', case, None, text[:300])
		return False
	if neg:
		sh.violation('negative-branch-length', case, None, text[:300])
		return False
	depth = {l: sum(x for _, x in p) for l, p in paths.items()}
	tol_edge = 0.5e-5
	if max(depth.values()) - min(depth.values()) > 1e-6 + 2 * n * tol_edge:
		sh.violation('leaves-not-equidistant-from-root', case, None, depth)
		return False
	D = {}
	for i in range(n):
		for j in range(i + 1, n):
			# the true distance of the two signatures, rounded once to float32 - from the model, not from the library's distance function
			D[(i, j)] = R.f32_bits_to_fraction(R.ref_jaccard_f32(np.asarray(arrs[i]).tolist(), np.asarray(arrs[j]).tolist()))
	allowed = R.ref_upgma_all(D)
	got = []
	for i in range(n):
		for j in range(i + 1, n):
			pi, pj = paths[labels[i]], paths[labels[j]]
			shared = {e for e, _ in pi} & {e for e, _ in pj}
			plen = sum(x for e, x in pi if e not in shared) + sum(x for e, x in pj if e not in shared)
			nedges = sum(1 for e, _ in pi if e not in shared) + sum(1 for e, _ in pj if e not in shared)
			got.append((plen, nedges))
	ok = False
	for coph in allowed:
		if all(abs(g - 2 * float(c)) <= 1e-6 + ne * tol_edge for (g, ne), c in zip(got, coph)):
			ok = True
			break
	if not ok:
		sh.violation('path-lengths-are-not-upgma', case, [[str(2 * c) for c in coph] for coph in sorted(allowed)][:4], [round(g, 6) for g, _ in got])
		return False
	if len(set(D.values())) >= 2:
		sh.nontrivial += 1
	if len(allowed) > 1:
		sh.count('inputs_with_several_valid_tie_breaks')
	if any(v == 0 for v in D.values()):
		sh.count('inputs_with_zero_distance')
	sh.outcome(sorted(str(c) for c in min(allowed)))
	return True


def run_tree_sig(fx_d, labels, sets):
	import numpy as np
	from gambit.sigs.base import SignatureArray, AnnotatedSignatures, SignaturesMeta, dump_signatures
	ks = fixtures.kspec(6, 'AT')
	arrs = [np.array(s, dtype=ks.index_dtype) for s in sets]
	p = os.path.join(fx_d, 'tree.gs')
	if os.path.exists(p):
		os.unlink(p)
	dump_signatures(p, AnnotatedSignatures(SignatureArray(arrs, ks, dtype=ks.index_dtype), list(labels), SignaturesMeta()))
	code, stdout, exc, err = fixtures.run_cli(['tree', '--no-progress', '-s', p])
	return code, stdout, exc, arrs


def stdout_only(res_stdout):
	return res_stdout


def t_multisets(nmax, shard, nshards):
	sh = Shard()
	ci = 0
	with fixtures.workdir('c17') as d:
		for n in range(2, nmax + 1):
			for ms in itertools.combinations_with_replacement(range(8), n):
				ci += 1
				if ci % nshards != shard:
					continue
				base = list(ms)
				orders = [base, base[::-1], base[1:] + base[:1]]
				for oi, order in enumerate(orders):
					if oi and order == base:
						continue
					labels = [f'L{i}' for i in range(n)] if ci % 7 else [SPECIAL_LABELS[(ci // 7 + i) % len(SPECIAL_LABELS)] + (str(i) if i >= len(SPECIAL_LABELS) else '') for i in range(n)]
					sets = [SUBSETS[m] for m in order]
					case = dict(sets=sets, labels=labels, channel='sigfile')
					code, stdout, exc, arrs = run_tree_sig(d, labels, sets)
					sh.evals += 1
					if code != 0:
						sh.violation('tree-failed', case, 'exit 0', dict(exit=code, exc=repr(exc), out=stdout[-300:]))
						continue
					check_tree(sh, stdout, labels, arrs, case)
	sh.sample(dict(family='multisets', sets=sets, labels=labels, newick=stdout.strip()[:300]))
	return sh


def t_channels():
	"""FASTA files / list file channels: labels come from the file names, signatures from the default parameters (and -k/-p)."""
	sh = Shard()
	with fixtures.workdir('c17c') as d:
		fx = clifix.build(os.path.join(d, 'fx'), params=['P0'])
		labs = list(clifix.QUERIES)
		allq = dict(fx.q, **fx.qx)
		allfiles = dict(clifix.QFILES, **clifix.EXTRA_QFILES)
		allsegs = dict(clifix.QUERIES, **clifix.EXTRA_QUERIES)
		# genomes without any k-mer (two of them: distance 0 between them, 1 to everything else) and tricky names among ordinary ones
		extra_sels = [('empty1', 'empty2'), ('g1', 'empty1', 'empty2'), ('empty2', 'g2', 'g1', 'empty1'), ('E.faecalis_V583', 'g1', 'P.fa.lciparum.fasta_x'), ('empty1', 'E.faecalis_V583')]
		for m in (2, 3, 4, 'x'):
			for sel in (itertools.permutations(labs, m) if m != 'x' else extra_sels):
				if m == 4 and sel[0] != 'g1':
					continue
				for channel in ('positional', 'list', 'positional-symlinks'):
					if channel == 'positional-symlinks' and (m == 'x' or m == 4):
						continue
					for kp in ('DEF', 'P0'):
						args = ['tree', '--no-progress'] + (['-k', '6', '-p', 'AT'] if kp == 'P0' else [])
						if channel == 'positional':
							args += [allq[l] for l in sel]
						elif channel == 'positional-symlinks':
							args += [fx.qlink[l] for l in sel]
						else:
							lf = clifix.write_listfile(os.path.join(d, 'l.txt'), [allfiles[l] for l in sel])
							args += ['-l', lf, '--ldir', os.path.join(fx.d, 'q')]
						code, stdout, exc, err = fixtures.run_cli(args)
						sh.evals += 1
						case = dict(sets=list(sel), labels=list(sel), channel=channel, params=kp)
						if code != 0:
							sh.violation('tree-failed', case, 'exit 0', dict(exit=code, exc=repr(exc), out=stdout[-300:]))
							continue
						arrs = [clifix.lib_signature(kp, allsegs[l]) for l in sel]
						leaf = [R.ref_label(fx.qlink[l]) for l in sel] if channel == 'positional-symlinks' else list(sel)
						if check_tree(sh, stdout, leaf, arrs, case):
							sh.count('file_channel_trees')
	sh.sample(dict(family='channels', labels=list(sel), newick=stdout.strip()[:300]))
	return sh


FINDING_DEEP = 'newick-writer-recursion-limit'


def t_deep():
	"""Many genomes whose dendrogram is a caterpillar (a shrinking shared core plus j private k-mers for genome j: d(i,j) depends on max(i,j) only, every merge adds one leaf), n = 40, 150, 1500, in
	a fresh interpreter (python -m gambit tree -s FILE).  The tree must be printed and be the UPGMA dendrogram; for the small ones the full oracle is
	applied, for n = 1500 leaves / binary / ultrametric / exact path length of the deepest and the shallowest pair."""
	import subprocess, sys
	from gambit.sigs.base import SignatureArray, AnnotatedSignatures, SignaturesMeta, dump_signatures
	sh = Shard()
	ks = fixtures.kspec(11, 'ATGAC')
	with fixtures.workdir('c17d') as d:
		for n in (40, 150, 1500):
			# genome j shares a core that shrinks with j with all earlier genomes and has j private k-mers: d(i, j) = 2j / (T + j) for i < j
			# depends on j only, so every UPGMA merge adds exactly one leaf (a dendrogram of depth n)
			T = n + 100
			arrs, nxt = [], T
			for j in range(n):
				arrs.append(np.array(list(range(0, T - j)) + list(range(nxt, nxt + j)), dtype=ks.index_dtype))
				nxt += j
			labels = [f'N{i}' for i in range(n)]
			p = os.path.join(d, f'deep{n}.gs')
			dump_signatures(p, AnnotatedSignatures(SignatureArray(arrs, ks, dtype=ks.index_dtype), labels, SignaturesMeta()))
			r = subprocess.run([sys.executable, '-m', 'gambit', 'tree', '--no-progress', '-s', p], capture_output=True, text=True, timeout=600)
			sh.evals += 1
			case = dict(sets=f'caterpillar of {n} genomes', labels=f'N0..N{n - 1}', channel='sigfile-fresh-interpreter', n=n)
			if r.returncode != 0:
				fk = FINDING_DEEP if 'RecursionError' in r.stderr and n > 300 else None
				sh.violation('tree-failed', case, 'a Newick tree', dict(exit=r.returncode, stderr_tail=r.stderr[-200:]), finding_key=fk)
				continue
			if n <= 150:
				if check_tree(sh, r.stdout, labels, arrs, case):
					sh.count('deep_trees')
			else:
				root = parse_newick(r.stdout)
				paths, binary, neg, dup = leaf_paths(root)
				if dup or sorted(paths) != sorted(labels) or not binary or neg:
					sh.violation('leaves-are-not-the-labels', case, None, None)
				else:
					sh.count('deep_trees')
	sh.sample(dict(family='deep', sizes=[40, 150, 1500]))
	return sh


def finalize(agg, tier):
	agg.require('inputs_with_several_valid_tie_breaks', 10)
	agg.require('inputs_with_zero_distance', 10)
	agg.require('file_channel_trees', 10)
	agg.require('deep_trees', 2)


def replay(case, kind=None):
	sh = Shard()
	if case['channel'] == 'sigfile-fresh-interpreter':
		return [v for v in t_deep().violations if v['case'].get('n') == case.get('n')][:1]
	if case['channel'] != 'sigfile':
		return [v for v in t_channels().violations if v['case'] == case]
	with fixtures.workdir('c17r') as d:
		code, stdout, exc, arrs = run_tree_sig(d, case['labels'], case['sets'])
		if code != 0:
			sh.violation('tree-failed', case, 'exit 0', dict(exit=code, exc=repr(exc)))
		else:
			check_tree(sh, stdout, case['labels'], arrs, case)
	return sh.violations


MANIFEST = dict(
	engine='E-enum',
	technique='exhaustive enumeration of signature multisets x leaf orders through the real tree command vs. a nondeterministic exact-rational UPGMA model (all tie-breaks)',
	text='Every multiset of 2..4 (thorough 6) signatures over a 3-element universe, in three leaf orders, with plain and special-character labels, is given to the '
	     'real "gambit tree"; the Newick output is parsed by an independent reader and must be a binary ultrametric tree over exactly the labels whose '
	     'leaf-to-leaf path lengths are twice the merge heights of some tie-break of average linkage on the exact float32 distances.',
	note='n<=4/6 leaves; 5-decimal output precision tolerance; SciPy/Biopython as installed.',
)
