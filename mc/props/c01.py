"""C01 - a signature is exactly the set of prefix-anchored k-mers on both strands.

Families (all enumerated completely, see DESIGN.md C01):
  core     every ACGT string of length 0..L x 7 (k, prefix) specs
  dirty    every string of length 0..Ld over {A,T,N,a,c,beta}; beta = byte chosen by VERIF_SEED
  everyk   k = 1..32 x |prefix| in {1,2,5}: pad.prefix.kmer.pad and reverse complements, truncated by one letter
  colls    ordered pairs (thorough: triples) of 12 short contigs, as list / tuple / generator / bare sequence
  layout   motifs embedded behind / before pads of 0..257 letters (position-keyed shortcuts)
  selfoverlap every string up to length 13 (16) over the letters of prefixes that overlap themselves in several ways (AAA, ATATA, ACACA...)
  allbytes every byte value 0..255 at every position of a sequence holding one occurrence on either strand (4 specs incl. k=32)
  long     occurrences straddling positions around 2^10 .. 2^16 (2^20) in long sequences
  histories every sequence of valid / failing calls in one thread (state kept between calls)
Each case: 4 sequence types x {SetAccumulator, ArrayAccumulator (k<=8), default} on the real calc_signature,
compared with refmodel.ref_signature (values, strict order, dtype).
"""
import itertools
import os
from mc.core import Shard
from mc import refmodel as R

ID = 'C01'
LEVEL = 'exploration'
RULE = ('exhaustive families core/dirty/everyk/colls/layout (see module docstring); one case = one (k, prefix, sequence collection), '
        'run through every sequence type and accumulator; non-trivial = the case has at least one prefix occurrence on either strand '
        '(kept, or dropped for an invalid byte / running past the end); cases are enumerated once each, so distinct by construction')
ASSUMPTIONS = [
	'sequence lengths above the stated bounds are covered only by the layout family (pads up to 257 letters)',
	'str / Bio.Seq inputs are exercised for ASCII content only (str.encode("ascii") is the documented path)',
	'dense accumulator exercised for k <= 8 and one k = 11 case (4^k booleans per call)',
]

SPECS = [(1, b'A'), (2, b'AT'), (2, b'AA'), (3, b'AC'), (1, b'ACG'), (3, b'ATG'), (2, b'TA')]


def plan(tier, seed):
	L = 7 if tier == 'quick' else 10
	Ld = 5 if tier == 'quick' else 7
	tasks = []
	for si in range(len(SPECS)):
		for a in range(4):
			if L >= 9:
				for b in range(4):
					tasks.append(('t_core', dict(si=si, L=L, head=[a, b])))
			else:
				tasks.append(('t_core', dict(si=si, L=L, head=[a])))
	betas = sorted({seed % 256, (seed * 7 + 0x80) % 256}) if tier == 'quick' else sorted({seed % 256, (seed * 7 + 0x80) % 256, 0, 1, 0x41 ^ 0x80, 0x7b, 0xff, 0x21, 0x55})
	for beta in betas:
		for first in range(6):
			tasks.append(('t_dirty', dict(beta=beta, Ld=Ld, first=first)))
	for lo in range(1, 33, 4):
		tasks.append(('t_everyk', dict(klo=lo, khi=lo + 4)))
	tasks.append(('t_colls', dict(triples=(tier != 'quick'))))
	for kind in range(3):
		tasks.append(('t_layout', dict(padkind=kind)))
	for ki in range(3):
		tasks.append(('t_histories', dict(ki=ki, depth=3 if tier == 'quick' else 4)))
	for part in range(4):
		tasks.append(('t_long', dict(part=part, nparts=4, tier=tier)))
	for lo in range(0, 256, 64):
		tasks.append(('t_allbytes', dict(lo=lo, hi=lo + 64)))
	for acc in ('set', 'array'):
		tasks.append(('t_accumulator_reuse', dict(acc=acc, depth=3 if tier == 'quick' else 4)))
	for si in range(len(SELF_OVERLAP_SPECS)):
		tasks.append(('t_selfoverlap', dict(si=si, L=13 if tier == 'quick' else 16)))
	return tasks


_cache = {}


def _specs(k, prefix):
	from gambit.kmers import KmerSpec
	key = (k, prefix)
	if key not in _cache:
		_cache[key] = KmerSpec(k, prefix)
	return _cache[key]


def spec_variants(k, prefix):
	"""The same parameters spelled the other ways a KmerSpec accepts: prefix as text, in lower / mixed case, k as a NumPy integer, through
	JSON, through pickle (what a process pool does).  All must behave as the plain one."""
	key = ('variants', k, prefix)
	if key not in _cache:
		import pickle
		import numpy as np
		from gambit.kmers import KmerSpec
		from gambit.util import json as gjson
		mixed = bytes(b + 32 if i % 2 == 0 else b for i, b in enumerate(prefix))
		out = [('str', KmerSpec(k, prefix.decode())), ('lower-bytes', KmerSpec(k, prefix.lower())), ('lower-str', KmerSpec(k, prefix.decode().lower())),
		       ('mixed-case', KmerSpec(k, mixed)), ('numpy-k', KmerSpec(np.int64(k), prefix)), ('pickled', pickle.loads(pickle.dumps(KmerSpec(k, prefix.lower()))))]
		try:
			out.append(('json', gjson.from_json(gjson.to_json(KmerSpec(k, prefix.decode().lower())), KmerSpec)))
		except Exception:
			pass
		_cache[key] = out
	return _cache[key]


def occ_stats(k, prefix, seqs):
	"""Counts used for non-vacuity only (model side): forward / reverse occurrences, dropped ones, overlaps."""
	fwd = rev = dropped = overlap = 0
	p = len(prefix)
	for s in seqs:
		for which, strand in ((0, R.ref_upper(s)), (1, R.ref_upper(R.ref_revcomp(s)))):
			last = None
			for i in range(0, len(strand) - p + 1):
				if strand[i:i + p] == prefix:
					km = strand[i + p:i + p + k]
					if len(km) < k or R.ref_index(km) is None:
						dropped += 1
					else:
						if which:
							rev += 1
						else:
							fwd += 1
						if last is not None and i - last < p + k:
							overlap += 1
						last = i
	return fwd, rev, dropped, overlap


def check_case(sh, k, prefix, seqs, variants='all', stats=True):
	"""seqs: list of bytes.  Runs all variants of the real code against the model."""
	import numpy as np
	from gambit.sigs.calc import calc_signature, SetAccumulator, ArrayAccumulator
	ks = _specs(k, prefix)
	exp = R.ref_signature(k, prefix, seqs)
	dt = R.ref_dtype(k)
	ascii_ok = all(b < 128 for s in seqs for b in s)
	conv = [('bytes', lambda s: s), ('bytearray', bytearray)]
	if ascii_ok:
		from Bio.Seq import Seq
		conv += [('str', lambda s: s.decode('ascii')), ('Seq', lambda s: Seq(s.decode('ascii')))]
	if variants == 'light':
		conv = conv[:1] + conv[2:3]
	for tname, cv in conv:
		accs = [('set', lambda: SetAccumulator(k)), ('default', lambda: None)]
		if k <= 8:
			accs.append(('array', lambda: ArrayAccumulator(k)))
		for aname, mk in accs:
			arg = [cv(s) for s in seqs]
			got = calc_signature(ks, arg, accumulator=mk())
			sh.evals += 1
			if not isinstance(got, np.ndarray) or str(got.dtype) != dt or got.tolist() != exp:
				sh.violation('signature', dict(k=k, prefix=prefix, seqs=list(seqs), type=tname, acc=aname),
				             dict(sig=exp, dtype=dt), dict(sig=getattr(got, 'tolist', lambda: repr(got))(), dtype=str(getattr(got, 'dtype', None))))
				return
	if variants == 'all' and exp:
		for vname, vks in spec_variants(k, prefix):
			got = calc_signature(vks, [bytes(s) for s in seqs])
			sh.evals += 1
			if vks != ks or not isinstance(got, np.ndarray) or str(got.dtype) != dt or got.tolist() != exp:
				sh.violation('signature', dict(k=k, prefix=prefix, seqs=list(seqs), type='bytes', acc='default', kmerspec_built_as=vname), dict(sig=exp, dtype=dt),
				             dict(sig=getattr(got, 'tolist', lambda: repr(got))(), dtype=str(getattr(got, 'dtype', None)), equal_to_plain_spec=(vks == ks)))
				return
		sh.count('kmerspec_spelling_variants')
	if stats:
		f, r, d, o = occ_stats(k, prefix, seqs)
		if f: sh.count('cases_with_forward_occurrence')
		if r: sh.count('cases_with_reverse_occurrence')
		if d: sh.count('cases_with_dropped_occurrence')
		if o: sh.count('cases_with_overlapping_occurrences')
		if f or r or d:
			sh.nontrivial += 1
	elif exp:
		sh.nontrivial += 1
	sh.outcome([k, exp])


def t_core(si, L, head):
	sh = Shard()
	k, prefix = SPECS[si]
	hb = bytes(b'ACGT'[i] for i in head)
	# strings shorter than the head are enumerated by the shard whose head is all-A
	if all(h == 0 for h in head):
		for n in range(0, len(head)):
			for t in itertools.product(b'ACGT', repeat=n):
				check_case(sh, k, prefix, [bytes(t)])
	for n in range(0, L - len(head) + 1):
		for t in itertools.product(b'ACGT', repeat=n):
			s = hb + bytes(t)
			check_case(sh, k, prefix, [s], variants='all' if len(s) <= 6 else 'light')
	sh.sample(dict(family='core', k=k, prefix=prefix.decode(), last_seq=s.decode(), sig=R.ref_signature(k, prefix, [s])))
	return sh


def t_dirty(beta, Ld, first):
	sh = Shard()
	alpha = [65, 84, 78, 97, 99, beta]
	specs = [(1, b'A'), (2, b'AT'), (2, b'TA'), (1, b'AC'), (2, b'G')]
	for n in range(0, Ld):
		for t in itertools.product(alpha, repeat=n):
			s = bytes([alpha[first]]) + bytes(t)
			for k, p in specs:
				check_case(sh, k, p, [s], variants='all' if n <= 3 else 'light')
	sh.sample(dict(family='dirty', beta=beta, last_seq=s))
	return sh


def t_everyk(klo, khi):
	sh = Shard()
	seed = int(os.environ.get('VERIF_SEED') or 0)
	prefixes = [b'A', b'TG', b'ATGAC']
	pads = [b'', b'G', b'GG']
	for k in range(klo, khi):
		x = (seed * 2654435761 + k * 40503 + 12345) % (4 ** k)
		kmers = [b'A' * k, b'T' * k, (b'ACGT' * 9)[:k], (b'GTCA' * 9)[:k], R.ref_kmer(x, k),
		         b'N' + b'C' * (k - 1), b'C' * (k - 1) + b'N', b'c' * k, b'T' * (k - 1) + b'g']
		for p in prefixes:
			for km in kmers:
				for l, r in itertools.product(pads, pads):
					base = l + p + km + r
					for s in (base, R.ref_revcomp(base)):
						cands = [s, s[:-1], s[1:], s.lower(), s + s, s + R.ref_revcomp(s)]
						for c in cands:
							check_case(sh, k, p, [c], variants='all' if (l, r) == (b'', b'') else 'light')
		if k == 11:
			from gambit.sigs.calc import calc_signature, ArrayAccumulator
			s = b'GATGAC' + (b'ACGT' * 3)[:11] + b'TT'
			got = calc_signature(_specs(11, b'ATGAC'), s, accumulator=ArrayAccumulator(11))
			sh.evals += 1
			if got.tolist() != R.ref_signature(11, b'ATGAC', [s]) or str(got.dtype) != 'uint32':
				sh.violation('signature', dict(k=11, prefix=b'ATGAC', seqs=[s], type='bytes', acc='array'), R.ref_signature(11, b'ATGAC', [s]), got.tolist())
	sh.sample(dict(family='everyk', k=k, prefix=p.decode(), seq=c))
	return sh


def t_accumulator_reuse(acc, depth, only=None):
	"""ONE accumulator object, supplied by the caller, used for a sequence of calls (it is a mutable set: the caller may clear it, discard from
	it, or let it accumulate): every history of up to `depth` steps over {signature of sequence i into the accumulator, clear, discard one
	k-mer}; after each call the returned signature must be the sorted content the accumulator should have by set semantics."""
	import numpy as np
	from gambit.sigs.calc import calc_signature, SetAccumulator, ArrayAccumulator
	sh = Shard()
	k, prefix = 3, b'AT'
	ks = _specs(k, prefix)
	seqs = [b'ATCGATTTA', b'ATGGGATCCA', b'CCATAAAATGCA', b'GGGG', b'ATCGATTTAATGGG']        # the first three hold two k-mers each (same count, different ones)
	sigs = [set(R.ref_signature(k, prefix, [s])) for s in seqs]
	events = [('sig', i) for i in range(len(seqs))] + [('clear',), ('discard',), ('read',)]
	for L in range(2, depth + 1):
		for hist in itertools.product(range(len(events)), repeat=L):
			if events[hist[0]][0] != 'sig' or (only is not None and list(hist) != only):
				continue
			a = SetAccumulator(k) if acc == 'set' else ArrayAccumulator(k)
			model = set()
			for step, ei in enumerate(hist):
				ev = events[ei]
				sh.evals += 1
				if ev[0] == 'sig':
					model |= sigs[ev[1]]
					got = calc_signature(ks, [seqs[ev[1]]], accumulator=a)
				elif ev[0] == 'clear':
					a.clear(); model.clear()
					continue             # no read here: what the accumulator hands out NEXT is what counts
				elif ev[0] == 'discard':
					if model:
						x = min(model)
						a.discard(x); model.discard(x)
					continue
				else:
					got = a.signature()
				if not isinstance(got, np.ndarray) or got.tolist() != sorted(model) or str(got.dtype) != R.ref_dtype(k) or len(a) != len(model):
					sh.violation('accumulator-history', dict(k=k, prefix=prefix, acc=acc, accumulator_history=list(hist[:step + 1]), events=[list(e) for e in events]), sorted(model), getattr(got, 'tolist', lambda: repr(got))())
					break
			else:
				sh.nontrivial += 1
	sh.count('accumulator_histories', sh.evals)
	sh.sample(dict(family='accumulator-reuse', acc=acc, depth=depth))
	return sh


def t_allbytes(lo, hi):
	"""Every byte value 0..255 substituted at every position of a sequence holding one occurrence (prefix, k-mer, pads), on either strand:
	the occurrence survives only for the eight letters ACGTacgt (and then changes the k-mer / moves the match accordingly)."""
	sh = Shard()
	specs = [(3, b'AT', b'GCA'), (4, b'C', b'ATTG'), (32, b'ATGAC', (b'TGCA' * 8)), (9, b'GA', b'CCATTGACG')]
	for k, p, km in specs:
		for base in (b'G' + p + km + b'C', p + km, R.ref_revcomp(b'G' + p + km + b'C')):
			for pos in range(len(base)):
				for b in range(lo, hi):
					s = base[:pos] + bytes([b]) + base[pos + 1:]
					check_case(sh, k, p, [s], variants='light')
					if b >= 128:
						sh.count('high_bit_byte_cases')
	sh.sample(dict(family='allbytes', lo=lo, hi=hi, last_seq=s))
	return sh


CONTIGS = [b'', b'A', b'AT', b'CAT', b'ATG', b'GCA', b'ATGC', b'GCAT', b'CCAT', b'ATCC', b'atgcat', b'ATNGC', b'TTTAT', b'ATAAA']


def t_colls(triples):
	sh = Shard()
	from gambit.sigs.calc import calc_signature
	specs = [(2, b'AT'), (1, b'A'), (3, b'AT'), (2, b'CAT')]
	for k, p in specs:
		ks = _specs(k, p)
		combos = list(itertools.product(CONTIGS, repeat=2))
		if triples:
			combos += list(itertools.product(CONTIGS, repeat=3))
		combos += [(c,) for c in CONTIGS] + [()]
		for combo in combos:
			seqs = list(combo)
			check_case(sh, k, p, seqs, variants='light')
			exp = R.ref_signature(k, p, seqs)
			# container kinds: tuple, generator; single sequence passed bare
			for name, arg in (('tuple', tuple(seqs)), ('generator', (s for s in seqs)), ('iter-str', iter([s.decode() for s in seqs]))):
				got = calc_signature(ks, arg)
				sh.evals += 1
				if got.tolist() != exp:
					sh.violation('signature-collection', dict(k=k, prefix=p, seqs=seqs, container=name), exp, got.tolist())
			if len(seqs) == 1:
				from Bio.Seq import Seq
				for name, arg in (('bare-bytes', seqs[0]), ('bare-str', seqs[0].decode()), ('bare-bytearray', bytearray(seqs[0])), ('bare-Seq', Seq(seqs[0].decode()))):
					got = calc_signature(ks, arg)
					sh.evals += 1
					if got.tolist() != exp:
						sh.violation('signature-collection', dict(k=k, prefix=p, seqs=seqs, container=name), exp, got.tolist())
			# the union property itself (model side, cheap): signature of a collection = union over members
			un = sorted(set().union(*[set(R.ref_signature(k, p, [s])) for s in seqs])) if seqs else []
			if un != exp:
				sh.violation('model-union', dict(k=k, prefix=p, seqs=seqs), un, exp)
			if exp != R.ref_signature(k, p, [b''.join(seqs)]):
				sh.count('cases_where_concatenation_would_differ')
	sh.sample(dict(family='colls', k=k, prefix=p.decode(), seqs=seqs))
	return sh


# prefixes with SEVERAL self-overlaps (borders): occurrences may overlap each other by more than one amount
SELF_OVERLAP_SPECS = [(1, b'AAA', b'AC'), (2, b'TTTT', b'TG'), (2, b'ATATA', b'AT'), (1, b'ACACA', b'AC'), (2, b'AATAA', b'AT'), (3, b'ATAT', b'AT'), (1, b'ACCAC', b'AC')]


def t_selfoverlap(si, L):
	"""Every string up to length L over the two letters of the prefix (plus, shorter, over three letters): all overlap patterns of a prefix that
	overlaps itself in more than one way - a search that skips ahead after a match (by any border but the longest) loses occurrences here."""
	sh = Shard()
	k, prefix, letters = SELF_OVERLAP_SPECS[si]
	for n in range(0, L + 1):
		for t in itertools.product(letters, repeat=n):
			check_case(sh, k, prefix, [bytes(t)], variants='light' if n > 8 else 'all')
	third = bytes(set(b'ACGT') - set(letters))[:1]
	for n in range(0, min(L, 10) + 1):
		for t in itertools.product(letters + third, repeat=n):
			if third[0] in t:
				check_case(sh, k, prefix, [bytes(t)], variants='light')
	sh.count('self_overlap_cases', sh.evals)
	sh.sample(dict(family='selfoverlap', k=k, prefix=prefix.decode(), letters=letters.decode(), maxlen=L))
	return sh


def t_long(part, nparts, tier):
	"""Long sequences: one or two occurrences (forward / reverse, valid / with an invalid byte) placed so that prefix and k-mer straddle every
	position p-1, p, p+1 around p = 2^10, 2^12, 2^13, 2^16 (thorough also 2^20) in an otherwise occurrence-free background of three kinds - a
	search that works in blocks, or changes strategy above some length, loses or invents k-mers exactly there."""
	sh = Shard()
	specs = [(4, b'AT'), (11, b'ATGAC'), (16, b'ATGAC')]
	ps = [1 << 10, 1 << 12, 1 << 13, 1 << 14, 1 << 15, 1 << 16, 1 << 17] + ([1 << 18, 1 << 19, 1 << 20, 3 << 17] if tier != 'quick' else [])
	ci = 0
	for k, prefix in specs:
		km = R.ref_kmer((0x9E3779B97F4A7C15 >> 3) % 4 ** k, k)
		fwd = prefix + km
		motifs = [fwd, R.ref_revcomp(fwd), fwd.lower(), prefix + b'N' + km[1:], fwd + R.ref_revcomp(fwd)]
		for bg in (b'G', b'c', b'N'):
			for p in ps:
				if p >= (1 << 15) and bg != b'G' and tier == 'quick':
					continue
				for m in motifs:
					for off in range(-len(m) - 1, 2):
						ci += 1
						if ci % nparts != part:
							continue
						start = p + off
						total = p + len(m) + 40
						seq = bg * start + m + bg * (total - start - len(m))
						check_case(sh, k, prefix, [seq], variants='light', stats=False)
						sh.count('long_sequences')
	sh.sample(dict(family='long', lengths=ps, specs=[[k, p.decode()] for k, p in specs]))
	return sh


def fixtures_reset():
	from mc import fixtures
	fixtures.reset_gambit_globals()


def t_histories(ki, depth, only=None):
	"""Call histories in one thread: every sequence (to the depth bound) of calls {valid X, valid Y, valid Z (empty result), a call that raises
	after some sequences of its collection were already searched (generator that raises / element of a wrong type / non-ASCII text)}.
	Every valid call must return the signature of ITS input, whatever happened before (state kept between calls, e.g. a recycled accumulator)."""
	from gambit.sigs.calc import calc_signature
	import gambit.sigs.calc, gambit.kmers, gambit.seq
	fixtures_reset()
	sh = Shard()
	k, prefix = [(3, b'AT'), (11, b'ATGAC'), (12, b'ATGAC')][ki]
	ks = _specs(k, prefix)
	P = prefix.decode()
	def block(i):
		return (P + R.ref_kmer((i * 2654435761) % 4 ** k, k).decode()).encode()
	X = [b'GG' + block(1) + b'CC' + block(2), block(3)]
	Y = [block(4) + b'G' + block(5)]
	Z = [b'GGGGCCCC']
	poison = [block(6) + b'CC', block(7)]      # searched before the failure happens

	def gen_raises():
		yield from poison
		raise RuntimeError('input stream broke')
	events = {
		'X': lambda: X, 'Y': lambda: Y, 'Z': lambda: Z,
		'fail-generator': gen_raises,
		'fail-wrong-type': lambda: poison + [12345],
		'fail-non-ascii-text': lambda: [s.decode() for s in poison] + ['AT\u00e9GAC'],
	}
	exp = {n: R.ref_signature(k, prefix, v) for n, v in (('X', X), ('Y', Y), ('Z', Z))}
	if not exp['X'] or not exp['Y'] or exp['Z'] or not R.ref_signature(k, prefix, poison):
		from mc.core import HarnessError
		raise HarnessError('history fixture is degenerate')
	for hist in ([tuple(only)] if only else itertools.product(list(events), repeat=depth)):
		if not only and not any(e in exp for e in hist[1:]):
			continue
		fixtures_reset()          # every history starts from the state of a freshly imported library
		for step, ev in enumerate(hist):
			sh.evals += 1
			try:
				got = calc_signature(ks, events[ev]())
				err = None
			except Exception as e:
				got, err = None, e
			case = dict(k=k, prefix=prefix, seqs=[], history=list(hist[:step + 1]))
			if ev in exp:
				if err is not None or got.tolist() != exp[ev] or str(got.dtype) != R.ref_dtype(k):
					sh.violation('signature-depends-on-earlier-calls', case, exp[ev], repr(err) if err else got.tolist())
					break
				if step and any(h.startswith('fail') for h in hist[:step]):
					sh.count('valid_calls_after_a_failed_call')
					sh.nontrivial += 1
			elif err is None:
				sh.count('failing_inputs_that_did_not_raise_not_judged')
	sh.sample(dict(family='histories', k=k, prefix=P, events=list(events), last_history=list(hist)))
	return sh


def motifs(k, p):
	km = (b'CAGT' * 9)[:k]
	bad = b'N' + km[1:]
	f = p + km
	r = R.ref_revcomp(f)
	return [f, r, f.lower(), r.lower(), p + bad, R.ref_revcomp(p + bad), p + km[:-1], r[1:], p + p + km, f + r, r + f,
	        p[:1].lower() + p[1:] + km, p, R.ref_revcomp(p), f[:-1] + f[-1:].lower()]


PADLENS = [0, 1, 15, 16, 17, 31, 32, 33, 63, 64, 65, 255, 256, 257]


def t_layout(padkind):
	sh = Shard()
	padletter = [b'G', b'g', b'N'][padkind]
	specs = [(2, b'AT'), (3, b'A'), (5, b'ATGAC'), (11, b'ATGAC'), (17, b'TA')]
	for k, p in specs:
		for m in motifs(k, p):
			for n in PADLENS:
				pad = padletter * n
				for s in (pad + m, m + pad, pad + m + pad, pad + m + b'C' + m):
					check_case(sh, k, p, [s], variants='light' if n > 17 else 'all')
	sh.sample(dict(family='layout', k=k, prefix=p.decode(), pad=padletter.decode(), padlen=n, motif=m))
	return sh


def finalize(agg, tier):
	for c in ('cases_with_forward_occurrence', 'cases_with_reverse_occurrence', 'cases_with_dropped_occurrence',
	          'cases_with_overlapping_occurrences', 'cases_where_concatenation_would_differ', 'valid_calls_after_a_failed_call', 'long_sequences', 'self_overlap_cases'):
		agg.require(c, 100)


def replay(case, kind=None):
	sh = Shard()
	import numpy as np
	from gambit.sigs.calc import calc_signature
	if 'accumulator_history' in case:
		return t_accumulator_reuse(case['acc'], len(case['accumulator_history']), only=list(case['accumulator_history'])).violations[:1]
	if 'history' in case:
		ki = [(3, b'AT'), (11, b'ATGAC'), (12, b'ATGAC')].index((case['k'], case['prefix']))
		return t_histories(ki, len(case['history']), only=case['history']).violations[:1]
	if kind == 'signature-collection':
		ks = _specs(case['k'], case['prefix'])
		seqs = case['seqs']
		exp = R.ref_signature(case['k'], case['prefix'], seqs)
		c = case['container']
		arg = {'tuple': tuple(seqs), 'generator': (s for s in seqs), 'iter-str': iter([s.decode() for s in seqs])}.get(c)
		if arg is None:
			from Bio.Seq import Seq
			arg = {'bare-bytes': lambda s: s, 'bare-str': bytes.decode, 'bare-bytearray': bytearray, 'bare-Seq': lambda s: Seq(s.decode())}[c](seqs[0])
		got = calc_signature(ks, arg)
		if got.tolist() != exp:
			sh.violation(kind, case, exp, got.tolist())
	else:
		check_case(sh, case['k'], case['prefix'], case['seqs'])
	return sh.violations


MANIFEST = dict(
	engine='E-enum',
	technique='bounded exhaustive enumeration of input sequences on the real code vs. reference model',
	text='All ACGT strings up to length 7 (thorough 10) x 7 specs, all dirty-alphabet strings up to 5 (7), every k 1..32 at the '
	     'boundary lengths, all contig pairs (triples), and position-threshold layouts are run through the real calc_signature in all '
	     'sequence types and accumulators and compared element-for-element with a textual-definition model; small-scope bugs in the '
	     'search bounds/slices are decided completely within these lengths.',
	note='lengths above the bounds only via pad layouts; model mc/refmodel.ref_signature trusted; native encoders as built from the tree\'s generated C.',
)
