"""C06 - a genome's signature depends only on its biological content.

Seam: calc_file_signature(kspec, SequenceFile(path, 'fasta', 'auto')) on real files.
Biological dimension (FULL product): every genome of c<=3 contigs drawn from 8 short contigs x every orientation vector (2^c) x every contig
order (c!).  Formatting dimensions: case pattern, line width (incl. 1, L-1, L, L+1), line ending, final newline, gzip, file name (content and
name chosen independently) - default + every <=2 deviations (quick), full product (thorough).
Oracle: differential (equal to the signature of the default rendering) and absolute (union of refmodel.ref_signature over the individual contigs).
"""
import itertools
import os
from mc.core import Shard, deviations
from mc import fixtures
from mc import refmodel as R
import numpy as np

ID = 'C06'
LEVEL = 'exploration'
RULE = ('every (contig subset, orientation vector, contig order) x every formatting vector within the deviation bound; one case = one real file parsed by the '
        'real code; non-trivial = a rendering that differs from the default rendering of the same genome and whose genome has a non-empty signature')
ASSUMPTIONS = ['genomes of <= 3 short contigs (<= 40 nt) from a pool of 8; one k-mer spec (k=4, prefix AT) plus the default spec (11/ATGAC) for a slice']

CONTIGS = [
	'GGATCCGTAAT',          # ends with the prefix: nothing may be formed across the boundary
	'CGTAGGATGCATC',        # begins with a valid k-mer; contains AT (palindromic prefix) twice
	'ATCG',                 # shorter than |prefix|+k
	'TTATNCGTATACGCAAT',    # contains N right after an occurrence; ends with the prefix
	'ACGTACGTATGGCCATTACGATCGAT',
	'CCCCGGGG',             # no occurrence at all
	'ATCGCA',               # exactly |prefix|+k: one occurrence flush with BOTH ends (and, reverse-complemented, on the other strand)
	'GATCGCAC',             # |prefix|+k+2: the same occurrence one letter away from either end
]
K, PREFIX = 4, 'AT'

FMT = dict(
	case=['upper', 'lower', 'alternating', 'per-contig'],
	width=['60', '1', '2', '3', '7', 'L-1', 'L', 'L+1'],
	eol=['lf', 'crlf'],
	final=['yes', 'no'],
	gz=['no', 'yes', 'multi-member'],
	name=['x.fasta', 'x.fa.gz', 'x', 'x.gz.fna'],
	header=['plain', 'id-only', 'looks-like-sequence', 'long', 'non-ascii'],      # record titles are not biological content
)


def plan(tier, seed):
	nsh = 16 if tier == 'quick' else 64
	return [('t_files', dict(tier=tier, shard=s, nshards=nsh)) for s in range(nsh)] + [('t_default_spec', dict()), ('t_histories', dict(depth=3 if tier == 'quick' else 4))] + [('t_big', dict(which=w)) for w in range(3)] + [('t_tiny', dict()), ('t_similar_contigs', dict())]


def render(contigs, orient, fmt):
	out = []
	for i, (c, o) in enumerate(zip(contigs, orient)):
		s = R.ref_revcomp(c.encode()).decode() if o else c
		cs = fmt['case']
		if cs == 'lower' or (cs == 'per-contig' and i % 2 == 0):
			s = s.lower()
		elif cs == 'alternating':
			s = ''.join(ch.lower() if j % 2 else ch for j, ch in enumerate(s))
		out.append(s)
	return out


def width_of(w, L):
	return {'L-1': max(1, L - 1), 'L': L, 'L+1': L + 1}.get(w) or int(w)


def write(path, seqs, fmt):
	eol = '\n' if fmt['eol'] == 'lf' else '\r\n'
	lines = []
	for i, s in enumerate(seqs):
		lines.append({'plain': f'>c{i + 1} some description {i}', 'id-only': f'>c{i + 1}', 'looks-like-sequence': f'>ATCGCATT{"ACGT"[i % 4]} ATGACGGATCGCAC >ATTT',
		              'long': f'>c{i + 1} ' + 'ATCGCA plasmid=yes; ' * 40,
		              'non-ascii': f'>c{i + 1} Erwinia sp. Årsta µ-strain 株{i}'}[fmt.get('header', 'plain')])
		w = width_of(fmt['width'], len(s))
		lines.extend(s[j:j + w] for j in range(0, len(s), w))
	txt = eol.join(lines) + (eol if fmt['final'] == 'yes' else '')
	data = txt.encode('utf-8')
	if fmt['gz'] != 'no':
		import gzip, io
		# 'multi-member': a valid gzip file made of several members (what bgzip or `cat a.gz b.gz` produce), cut mid-record
		cuts = [0, len(data)] if fmt['gz'] == 'yes' else [0, max(1, len(data) // 3), max(2, 2 * len(data) // 3), len(data)]
		buf = io.BytesIO()
		for a, b in zip(cuts, cuts[1:]):
			with gzip.GzipFile(fileobj=buf, mode='wb', mtime=0) as f:
				f.write(data[a:b])
		data = buf.getvalue()
	with open(path, 'wb') as f:         # overwritten in place when the path exists (same inode)
		f.write(data)
	# file times are part of the environment the harness owns: every file carries the same, fixed modification time, so that nothing can tell
	# two different genomes written to one path apart by anything but their bytes (rsync -t --inplace, cp -p, coarse-timestamp file systems)
	os.utime(path, ns=(FIXED_NS, FIXED_NS))


FIXED_NS = 1_600_000_000 * 10 ** 9
_PREV = {}


def sig_of(path, ks):
	from gambit.seq import SequenceFile
	from gambit.sigs.calc import calc_file_signature
	return calc_file_signature(ks, SequenceFile(path, 'fasta', 'auto'))


def bio_variants():
	idx = range(len(CONTIGS))
	for c in (1, 2, 3):
		for subset in itertools.combinations(idx, c):
			yield subset


def check_file(sh, d, ks, subset, order, orient, fmt, base_sig, exp, k=K, prefix=PREFIX):
	contigs = [CONTIGS[i] for i in order]
	seqs = render(contigs, orient, fmt)
	path = os.path.join(d, fmt['name'])
	write(path, seqs, fmt)
	case = dict(subset=list(subset), order=list(order), orient=list(orient), fmt=dict(fmt), k=k, prefix=prefix)
	# the file is NOT removed afterwards: the next genome with this file name overwrites it in place.  What was there before is part of the case.
	size = os.path.getsize(path)
	me = (list(order), list(orient), dict(fmt))
	lst = _PREV.setdefault((path, size), [])     # recent DIFFERENT files of the same size at this path (what a stat-based shortcut would confuse it with)
	if me in lst:
		lst.remove(me)
	if lst:
		case['previous_file_at_this_path'] = dict(order=lst[-1][0], orient=lst[-1][1], fmt=lst[-1][2], same_size=True)
		sh.count('files_replacing_a_different_file_of_the_same_size_in_place')
	lst.append(me)
	del lst[:-4]
	sh.evals += 1
	try:
		got = sig_of(path, ks)
	except Exception as e:
		sh.violation('parse-failed', case, exp, repr(e))
		return None
	if got.tolist() != exp or str(got.dtype) != R.ref_dtype(k):
		sh.violation('not-union-of-contig-signatures', case, exp, got.tolist())
		return got
	if base_sig is not None and got.tolist() != base_sig:
		sh.violation('differs-from-default-rendering', case, base_sig, got.tolist())
	return got


def t_files(tier, shard, nshards):
	sh = Shard()
	ks = fixtures.kspec(K, PREFIX)
	default_fmt = {k: v[0] for k, v in FMT.items()}
	fmts = list(deviations(FMT, 2 if tier == 'quick' else None))
	ci = 0
	with fixtures.workdir('c06') as d:
		for subset in bio_variants():
			exp = sorted(set().union(*[set(R.ref_signature(K, PREFIX.encode(), [CONTIGS[i].encode()])) for i in subset]))
			joined = R.ref_signature(K, PREFIX.encode(), [''.join(CONTIGS[i] for i in subset).encode()])
			c = len(subset)
			for order in itertools.permutations(subset):
				for orient in itertools.product([0, 1], repeat=c):
					ci += 1
					if ci % nshards != shard:
						continue
					base = check_file(sh, d, ks, subset, subset, (0,) * c, default_fmt, None, exp)
					base_sig = None if base is None else base.tolist()
					for fmt in fmts:
						check_file(sh, d, ks, subset, order, orient, fmt, base_sig, exp)
						if exp and (fmt != default_fmt or order != subset or any(orient)):
							sh.nontrivial += 1
					if joined != exp:
						sh.count('genomes_where_joining_contigs_would_differ')
					if any(orient):
						sh.count('variants_with_reverse_complemented_contig')
					sh.outcome(exp)
	sh.sample(dict(family='files', subset=list(subset), order=list(order), orient=list(orient), fmt=fmt, signature=exp))
	return sh


def t_similar_contigs():
	"""Genomes whose contigs resemble each other: equal length, identical first and last E letters (repeat copies, SNP variants, rRNA operons),
	identical titles, exact duplicates next to near-duplicates.  No contig may be taken for another: the signature is the union over ALL of them."""
	sh = Shard()
	ks = fixtures.kspec(K, PREFIX)
	mids = ['ATCGCA' + 'GG' * 7, 'ATGGTT' + 'CC' * 7, 'CC' * 7 + 'ATTTGA', 'GGGGGGCCCCCCGGGGGGCC']      # 20-letter middles holding different k-mers (the last: none)
	with fixtures.workdir('c06s') as d:
		for E in (1, 8, 63, 64, 65, 100):
			end = ('GC' * E)[:E]
			contigs = [end + m + end for m in mids]
			for sel in itertools.chain(itertools.permutations(range(len(mids)), 2), itertools.permutations(range(len(mids)), 3), [(0, 0, 1), (1, 0, 0), (2, 2)]):
				for titles in ('distinct', 'identical'):
					exp = sorted(set().union(*[set(R.ref_signature(K, PREFIX.encode(), [contigs[i].encode()])) for i in sel]))
					lines = []
					for j, i in enumerate(sel):
						lines.append('>contig' + ('' if titles == 'identical' else str(j)) + ' repeat copy')
						lines.extend(contigs[i][x:x + 60] for x in range(0, len(contigs[i]), 60))
					p = os.path.join(d, 'similar.fasta')
					with open(p, 'wb') as f:
						f.write(('\n'.join(lines) + '\n').encode())
					os.utime(p, ns=(FIXED_NS, FIXED_NS))
					sh.evals += 1
					case = dict(subset='similar-contigs', order=list(sel), orient=[], fmt=dict(shared_end_length=E, titles=titles), k=K, prefix=PREFIX)
					try:
						got = sig_of(p, ks)
					except Exception as e:
						sh.violation('parse-failed', case, exp, repr(e))
						continue
					if got.tolist() != exp:
						sh.violation('not-union-of-contig-signatures', case, exp, got.tolist())
					else:
						sh.nontrivial += 1
	sh.count('genomes_of_similar_contigs', sh.evals)
	sh.sample(dict(family='similar-contigs', shared_end_lengths=[1, 8, 63, 64, 65, 100]))
	return sh


def t_tiny():
	"""The smallest genome files: no record at all, a title without sequence, one or two letters of sequence - each with and without the final
	newline, plain and gzip-compressed, LF and CRLF.  All are valid inputs whose signature is the union over their (possibly empty) contigs."""
	import gzip
	sh = Shard()
	ks = fixtures.kspec(K, PREFIX)
	bodies = [[], [('', '')], [('x', '')], [('x', 'A')], [('x', 'AT')], [('x', 'ATCGCA')], [('x', ''), ('y', 'ATCGCA')], [('x', 'ATCGCA'), ('y', '')], [('', 'ATCGCA')]]
	with fixtures.workdir('c06t') as d:
		for recs in bodies:
			exp = sorted(set().union(*[set(R.ref_signature(K, PREFIX.encode(), [seq.encode()])) for _, seq in recs])) if recs else []
			for eol in ('\n', '\r\n'):
				lines = []
				for title, seq in recs:
					lines.append('>' + title)
					if seq:
						lines.append(seq)
				for final in (True, False):
					text = eol.join(lines) + (eol if final and lines else '')
					for gz in (False, True):
						for name in ('t.fasta', 't.fa.gz', 't'):
							p = os.path.join(d, name)
							data = text.encode('ascii')
							with open(p, 'wb') as f:
								f.write(gzip.compress(data, mtime=0) if gz else data)
							os.utime(p, ns=(FIXED_NS, FIXED_NS))
							sh.evals += 1
							case = dict(subset='tiny', order=[], orient=[], fmt=dict(records=[list(r) for r in recs], eol=eol, final=final, gz=gz, name=name, bytes=len(data)), k=K, prefix=PREFIX)
							try:
								got = sig_of(p, ks)
							except Exception as e:
								sh.violation('parse-failed', case, exp, repr(e))
								continue
							if got.tolist() != exp or str(got.dtype) != R.ref_dtype(K):
								sh.violation('not-union-of-contig-signatures', case, exp, got.tolist())
								continue
							sh.nontrivial += 1
							if len(data) < 2:
								sh.count('files_shorter_than_two_bytes')
	sh.count('tiny_files', sh.evals)
	sh.sample(dict(family='tiny', bodies=len(bodies)))
	return sh


def t_default_spec():
	"""A slice with the default 11/ATGAC parameters (set accumulator boundary k=11, dense array of 4^11)."""
	sh = Shard()
	ks = fixtures.kspec(11, 'ATGAC')
	contigs = ['GGATGACAAAAAAAAAAAGGTT', 'CCGTCATGGTGTGTGTGTGAAATGAC', 'ATGACNAAAAAAAAAAGGTCAT']
	default_fmt = {k: v[0] for k, v in FMT.items()}
	with fixtures.workdir('c06d') as d:
		exp = sorted(set().union(*[set(R.ref_signature(11, b'ATGAC', [c.encode()])) for c in contigs]))
		for order in itertools.permutations(range(3)):
			for orient in itertools.product([0, 1], repeat=3):
				for fmt in deviations(FMT, 1):
					seqs = render([contigs[i] for i in order], orient, fmt)
					path = os.path.join(d, fmt['name'])
					write(path, seqs, fmt)
					sh.evals += 1
					dcase = dict(subset='default-spec', order=list(order), orient=list(orient), fmt=dict(fmt), k=11, prefix='ATGAC')
					try:
						got = sig_of(path, ks)
					except Exception as e:
						sh.violation('parse-failed', dcase, exp, repr(e))
						continue
					finally:
						os.unlink(path)
					if got.tolist() != exp or str(got.dtype) != 'uint32':
						sh.violation('not-union-of-contig-signatures', dict(subset='default-spec', order=list(order), orient=list(orient), fmt=dict(fmt), k=11, prefix='ATGAC'), exp, got.tolist())
					sh.nontrivial += 1
	sh.sample(dict(family='default-spec', contigs=contigs, signature=exp))
	return sh


def t_big(which):
	"""Files larger than any I/O buffer: (0) 3000 short records, (1) one 300 kB contig with occurrences every ~100 letters, (2) 40 contigs of 20 kB -
	rendered with several line widths / line endings / compression (single- and multi-member gzip with members cut mid-line); the signature must
	equal the union of per-contig model signatures whatever the rendering."""
	import random
	sh = Shard()
	rnd = random.Random(4242 + which)
	ks = fixtures.kspec(11, 'ATGAC')

	def rand_seq(n):
		return ''.join(rnd.choice('ACGT') for _ in range(n))
	if which == 0:
		contigs = [rand_seq(rnd.randrange(5, 60)) + ('ATGAC' + rand_seq(11) if i % 3 == 0 else '') + rand_seq(rnd.randrange(0, 20)) for i in range(3000)]
	elif which == 1:
		big = list(''.join(rand_seq(90) + 'ATGAC' + rand_seq(11) for _ in range(2800)))
		# occurrences (both strands) starting at every offset -17..+1 around the multiples of 2^16 - wherever a block-wise search would cut
		for m in range(1, len(big) // 65536 + 1):
			for j, off in enumerate(range(-17, 2)):
				pos = m * 65536 + off
				if pos + 16 < len(big) and (m * 19 + j) % 19 == j % 19:
					motif = ('ATGAC' + rand_seq(11)) if (j + m) % 2 else R.ref_revcomp(('ATGAC' + rand_seq(11)).encode()).decode()
					if (m - 1) * 19 + j < 19 * 8 and ((m - 1) * 19 + j) % 4 == (m % 4):
						big[pos:pos + 16] = list(motif)
		contigs = [''.join(big)]
	else:
		contigs = [''.join(rand_seq(180) + ('GTCAT' if j % 2 else 'ATGAC') + rand_seq(15) for j in range(100)) for _ in range(40)]
	exp = sorted(set().union(*[set(R.ref_signature(11, b'ATGAC', [c.encode()])) for c in contigs]))
	fmts = []
	for width in ('60', '1', '7', 'L', '8191', '8192', '65536'):
		for eol in ('lf', 'crlf'):
			for gz in ('no', 'yes', 'multi-member'):
				if width == '1' and which != 0:
					continue          # one letter per line on 300 kB: slow and covered by the small files
				fmts.append(dict(case='alternating' if (len(fmts) % 3 == 0) else 'upper', width=width, eol=eol, final='no' if len(fmts) % 2 else 'yes', gz=gz, name='big.fa' if gz == 'no' else 'big.fasta.gz'))
	with fixtures.workdir('c06b') as d:
		for fmt in fmts:
			seqs = render(contigs, [0] * len(contigs), fmt)
			path = os.path.join(d, fmt['name'])
			write(path, seqs, fmt)
			sh.evals += 1
			case = dict(subset='big', which=which, order=[], orient=[], fmt=dict(fmt), k=11, prefix='ATGAC')
			try:
				got = sig_of(path, ks)
			except Exception as e:
				sh.violation('parse-failed', case, len(exp), repr(e))
				continue
			finally:
				os.unlink(path)
			if got.tolist() != exp:
				missing = sorted(set(exp) - set(got.tolist()))[:3]
				extra = sorted(set(got.tolist()) - set(exp))[:3]
				sh.violation('not-union-of-contig-signatures', case, dict(n=len(exp)), dict(n=len(got), missing=missing, extra=extra))
				continue
			sh.nontrivial += 1
			sh.count('big_files')
	sh.sample(dict(family='big', which=which, contigs=len(contigs), total_letters=sum(map(len, contigs)), kmers=len(exp), formats=len(fmts)))
	return sh


def t_histories(depth, only=None):
	"""File-level call histories in one thread: every sequence of {good file A, good file B, a file that fails only after 1500 records were parsed
	(undecodable byte late in the file / truncated gzip stream)}: a good file's signature must not depend on what was parsed before."""
	from mc.props.c13 import late_fault_file
	from gambit.seq import SequenceFile
	from gambit.sigs.calc import calc_file_signature
	fixtures.reset_gambit_globals()
	sh = Shard()
	for ks in (fixtures.kspec(11, 'ATGAC'), fixtures.kspec(12, 'ATGAC')):
		with fixtures.workdir('c06h') as d:
			good = {}
			for name, contigs in (('A', ['GGATGACAAAAAAAAAAAGGTT', 'CCATGACCCCCCCCCCCCTT']), ('B', ['TTATGACGTGTGTGTGTGTAA'])):
				p = os.path.join(d, name + '.fa')
				fixtures.write_fasta(p, contigs)
				good[name] = (SequenceFile(p, 'fasta', 'auto'), sorted(set().union(*[set(R.ref_signature(ks.k, b'ATGAC', [c.encode()])) for c in contigs])))
			bad = {'F-late-bad-byte': late_fault_file(d, 'late-bad-byte', 'late.fa'), 'F-late-truncated-gzip': late_fault_file(d, 'late-truncated-gzip', 'late.fa.gz')}
			events = list(good) + list(bad)
			for hist in ([tuple(only)] if only else itertools.product(events, repeat=depth)):
				if not only and not any(e in good for e in hist[1:]):
					continue
				fixtures.reset_gambit_globals()          # every history starts from the state of a freshly imported library
				for step, ev in enumerate(hist):
					sh.evals += 1
					try:
						got = calc_file_signature(ks, good[ev][0] if ev in good else bad[ev])
						err = None
					except Exception as e:
						got, err = None, e
					case = dict(subset='history', order=[], orient=[], fmt={}, k=ks.k, prefix='ATGAC', history=list(hist[:step + 1]))
					if ev in good:
						if err is not None or got.tolist() != good[ev][1]:
							sh.violation('signature-depends-on-earlier-files', case, good[ev][1], repr(err) if err else got.tolist())
							break
						if any(h in bad for h in hist[:step]):
							sh.count('good_files_after_a_failed_parse')
							sh.nontrivial += 1
					elif err is None:
						sh.violation('corrupt-file-parsed-without-error', case, 'an error', got.tolist()[:5])
						break
	sh.sample(dict(family='histories', events=events, last_history=list(hist)))
	return sh


def finalize(agg, tier):
	agg.require('genomes_where_joining_contigs_would_differ', 10)
	agg.require('variants_with_reverse_complemented_contig', 100)
	agg.require('good_files_after_a_failed_parse', 10)
	agg.require('big_files', 30)


def replay(case, kind=None):
	sh = Shard()
	if case['subset'] == 'big':
		return [v for v in t_big(case['which']).violations if v['case']['fmt'] == case['fmt']][:1]
	if case['subset'] == 'history':
		return [v for v in t_histories(len(case['history']), only=case['history']).violations if v['case']['k'] == case['k']][:1]
	if case['subset'] == 'similar-contigs':
		return [v for v in t_similar_contigs().violations if v['case'] == case][:1]
	if case['subset'] == 'tiny':
		return [v for v in t_tiny().violations if v['case']['fmt'] == case['fmt']][:1]
	if case['subset'] == 'default-spec':
		return [v for v in t_default_spec().violations if v['case'] == case]
	ks = fixtures.kspec(K, PREFIX)
	subset = tuple(case['subset'])
	exp = sorted(set().union(*[set(R.ref_signature(K, PREFIX.encode(), [CONTIGS[i].encode()])) for i in subset]))
	default_fmt = {k: v[0] for k, v in FMT.items()}
	with fixtures.workdir('c06r') as d:
		_PREV.clear()
		pv = case.get('previous_file_at_this_path')
		if pv:
			# put the earlier file in place and let the library read it, as in the run that found the case
			write(os.path.join(d, pv['fmt']['name']), render([CONTIGS[i] for i in pv['order']], pv['orient'], pv['fmt']), pv['fmt'])
			try:
				sig_of(os.path.join(d, pv['fmt']['name']), ks)
			except Exception:
				pass
			check_file(sh, d, ks, subset, tuple(case['order']), tuple(case['orient']), case['fmt'], None, exp)
			return sh.violations
		base = check_file(sh, d, ks, subset, subset, (0,) * len(subset), default_fmt, None, exp)
		check_file(sh, d, ks, subset, tuple(case['order']), tuple(case['orient']), case['fmt'], None if base is None else base.tolist(), exp)
	return sh.violations


MANIFEST = dict(
	engine='E-enum',
	technique='full product of contig subsets x orientations x orders, deviation-bounded formatting vectors, on real FASTA files vs. per-contig reference model',
	text='Every genome of <=3 contigs from a pool of 8 (incl. a contig of exactly |prefix|+k letters, contigs ending in the prefix / starting with a k-mer / containing N / too short), in every '
	     'orientation and order, rendered under default + <=2 formatting deviations (thorough: all 1536 formats: case, line width 1..L+1, LF/CRLF, final newline, '
	     'gzip, file name independent of content), is parsed by the real calc_file_signature; the result must equal the default rendering and the union '
	     'of per-contig model signatures.',
	note='short contigs only; Biopython FASTA parser as installed.',
)
