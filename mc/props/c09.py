"""C09 - the closest-genomes list is the deterministic (distance, reference order) prefix.

(A) distance rows through the real get_result_item (argsort + classify), in child interpreters under every NumPy CPU-dispatch
    setting this CPU allows: every row over {0,1/2,1} of length<=8 (10), every row over {1/4,3/4} of length 12 (17,18), every placement
    of exactly two minima in a constant row for n in {17,24,33,64,100}; every row of length<=5 (6) over five values of which four are distinct
    float32 numbers less than 1e-6 apart (a sort on rounded keys shows there); report_closest N in {1,2,3,n,n+5}.
(B) a persisted synthetic database with identical and equidistant reference genomes, every query subset of a 5-k-mer universe,
    through query() and the CSV / JSON exporters, for OpenMP thread counts {1,16} x chunk sizes {1,2,3,1000} x N.
Oracle: refmodel.ref_closest (sort by (distance, position)); entry 0 = closest_match; CSV closest.description = JSON closest_genomes[0].
"""
import csv
import io
import itertools
import json
import os
from mc.core import Shard, digest
from mc import refmodel as R
from mc import taxo, child, fixtures
import numpy as np

ID = 'C09'
LEVEL = 'exploration'
RULE = ('(A) every distance row of the stated families x list lengths N, repeated under each CPU-dispatch setting; (B) every query subset x threads x '
        'chunk size x N on a persisted database; non-trivial = the row has a tie inside or at the edge of the reported prefix (equal distances whose '
        'relative order is observable)')
ASSUMPTIONS = [
	'only instruction-set subsets of this CPU can be enumerated (NPY_DISABLE_CPU_FEATURES switches features off, not on)',
	'rows longer than 100 references are not explored',
]
F32 = np.float32

AVX512 = 'AVX512F AVX512CD AVX512_SKX AVX512_CLX AVX512_CNL AVX512_ICL'
CPUS = {
	'default': '',
	'no-avx512-icl': 'AVX512_ICL',
	'no-avx512': AVX512,
	'no-avx512-avx2': AVX512 + ' AVX2 FMA3',
}


def plan(tier, seed):
	tasks = []
	fams = [('tern', dict(maxlen=8 if tier == 'quick' else 10)),
	        ('bin', dict(lens=[12] if tier == 'quick' else [12, 16, 17, 18])),
	        ('twomin', dict(ns=[17, 24, 33, 64, 100])),
	        ('near', dict(maxlen=5 if tier == 'quick' else 6)),
	        ('long', dict(ns=[1000, 4097] if tier == 'quick' else [1000, 4097, 50000]))]
	for cpu in CPUS:
		for fam, kw in fams:
			nsh = 2 if tier == 'quick' else 6
			for s in range(nsh):
				tasks.append(('t_rows_child', dict(cpu=cpu, fam=fam, kw=kw, shard=s, nshards=nsh)))
	for threads in (1, 16):
		tasks.append(('t_db', dict(threads=threads)))
		tasks.append(('t_db', dict(threads=threads, top=True)))
	return tasks


def t_rows_child(cpu, fam, kw, shard, nshards):
	env = {'NPY_DISABLE_CPU_FEATURES': CPUS[cpu]} if CPUS[cpu] else {}
	sh = child.run('mc.props.c09', 't_rows', dict(cpu=cpu, fam=fam, kw=kw, shard=shard, nshards=nshards), env=env)
	return sh


def rows_of(fam, kw):
	if fam == 'tern':
		for n in range(1, kw['maxlen'] + 1):
			yield from itertools.product([0.0, 0.5, 1.0], repeat=n)
	elif fam == 'bin':
		for n in kw['lens']:
			yield from itertools.product([0.25, 0.75], repeat=n)
	elif fam == 'long':
		# database-sized rows: 2..4 tied minima at structured positions (ends, middle, neighbours, around powers of two) in a row of larger values
		for n in kw['ns']:
			pos = sorted({0, 1, 2, n // 2 - 1, n // 2, 255, 256, 257, 1023, 1024, n - 3, n - 2, n - 1} & set(range(n)))
			base = [0.5 + 0.25 * ((i * 7) % 3 == 0) for i in range(n)]
			for m in (2, 3):
				for combo in itertools.combinations(pos, m):
					row = list(base)
					for c in combo:
						row[c] = 0.125
					yield tuple(row)
	elif fam == 'near':
		# distinct float32 values closer together than any plausible rounding step (neighbouring floats, 1333/2000 vs 1335/2003, ...)
		a = float(F32(0.6665))
		vals = [a, float(np.nextafter(F32(a), F32(1))), float(F32(1335 / 2003)), float(np.nextafter(F32(1335 / 2003), F32(0))), float(F32(0.25))]
		for n in range(2, kw['maxlen'] + 1):
			yield from itertools.product(vals, repeat=n)
	else:
		for n in kw['ns']:
			for i in range(n):
				for j in range(i + 1, n):
					row = [0.75] * n
					row[i] = row[j] = 0.25
					yield tuple(row)


FINDING_TIE = 'argsort-tie-order'


def tie_only(row, exp, got):
	"""The known finding is exactly: the reported list has the right length and the right distances in non-decreasing order and names
	each reference at most once - only WHICH of several equidistant references comes first differs from reference order."""
	if len(got) == len(exp) and None not in got and len(set(got)) == len(got) and [row[i] for i in got] == [row[i] for i in exp]:
		return FINDING_TIE
	return None


_tax = {}


def genomes_for(n):
	if n not in _tax:
		parent = (None, 0)
		taxa = taxo.build_taxa(parent)
		thr = (0.75, 0.25)
		taxo.set_attrs(taxa, thr=thr)
		placement = [1 if i % 2 == 0 else 0 for i in range(n)]
		_tax[n] = (parent, thr, taxa, placement, taxo.make_genomes(taxa, placement))
	return _tax[n]


_PREV = [None]


def check_row(sh, row, N, cpu=None, _record=True):
	from gambit.query import get_result_item, QueryParams, QueryInput
	n = len(row)
	parent, thr, taxa, placement, genomes = genomes_for(n)
	# the thresholds of the (same, reused) taxon objects change from row to row: what 'that distance alone would assign' must follow the
	# thresholds in force at the time of the query, not remembered ones
	thr = [(0.75, 0.25), (0.25, 0.75), (0.5, 0.5), (1.0, None)][(int(sum(row) * 4) + n + N) % 4]
	taxo.set_attrs(taxa, thr=thr)
	darr = np.array(row, dtype=F32)
	item = get_result_item(taxo.fake_db(genomes), QueryParams(report_closest=N), darr, QueryInput('q'))
	sh.evals += 1
	exp = R.ref_closest(list(row), N)
	gidx = {id(g): i for i, g in enumerate(genomes)}
	got = [gidx.get(id(m.genome)) for m in item.closest_genomes]
	case = dict(row=list(row), N=N, cpu=cpu, previous_call=_PREV[0])      # the call made just before on the same objects (hidden state)
	if _record:
		_PREV[0] = dict(row=list(row), N=N)
	if got != exp:
		fk = tie_only(row, exp, got)
		sh.violation('closest-list-order', case, exp, got, finding_key=fk)
		if fk is None:
			return got
		# known tie-order finding: judge the remaining clauses on the list actually produced
	for pos, m in enumerate(item.closest_genomes):
		i = got[pos]
		if float(m.distance) != row[i]:
			sh.violation('closest-list-distance', case, row[i], float(m.distance))
			return got
		if taxo.idx(taxa, m.matched_taxon) != R.ref_matching_taxon(parent, thr, placement[i], row[i]):
			sh.violation('closest-list-taxon', case, R.ref_matching_taxon(parent, thr, placement[i], row[i]), taxo.idx(taxa, m.matched_taxon))
			return got
	if item.closest_genomes[0].genome is not item.classifier_result.closest_match.genome:
		cm = gidx.get(id(item.classifier_result.closest_match.genome))
		fk = FINDING_TIE if cm is not None and row[cm] == row[got[0]] and got != exp else None
		sh.violation('first-entry-not-closest-match', case, cm, got[0], finding_key=fk)
		return got
	# tie observable in the prefix: an equal distance inside the prefix, or across its edge
	k = len(exp)
	ds = [row[i] for i in exp]
	if any(ds[i] == ds[i + 1] for i in range(k - 1)) or (k < n and sum(1 for d in row if d == ds[-1]) > sum(1 for d in ds if d == ds[-1])):
		sh.nontrivial += 1
		sh.count('rows_with_observable_tie')
	return got


def t_rows(cpu, fam, kw, shard, nshards):
	"""Runs inside the child interpreter."""
	import hashlib
	from numpy.core._multiarray_umath import __cpu_features__ as feats
	sh = Shard()
	h = hashlib.sha256()
	off = [f for f in CPUS[cpu].split() if feats.get(f)]
	if off:
		from mc.core import HarnessError
		raise HarnessError(f'CPU features {off} still enabled in child')
	ri = 0
	for row in rows_of(fam, kw):
		ri += 1
		if ri % nshards != shard:
			continue
		n = len(row)
		for N in (sorted({1, 2, 3, n, n + 5}) if n <= 100 else [1, 3, 10, 50]):
			got = check_row(sh, row, N, cpu)
			h.update(repr((row, N, got)).encode())
	sh.extra = dict(slice=[fam, shard, nshards], cpu=cpu, digest=h.hexdigest(), simd=sorted(f for f, v in feats.items() if v and f.startswith('AVX'))[:40])
	sh.sample(dict(family=fam, cpu=cpu, row=list(row), N=N, closest=got))
	sh.outcome([fam, shard, h.hexdigest()])
	return sh


# ---------------------------------------------------------------------------------------------- (B)

def exact_f32(A, B):
	import struct
	return struct.unpack('<f', struct.pack('<I', R.ref_jaccard_f32(list(A), list(B))))[0]


def db_spec():
	"""9 reference genomes over a 5-k-mer universe {0..4} (k=4 -> uint8 would be refused by the metric; use k=5 -> u2)."""
	taxa = [dict(name='G', parent=None, thr=0.8, rank='genus'), dict(name='S1', parent=0, thr=0.4, rank='species'), dict(name='S2', parent=0, thr=0.4, rank='species')]
	sigs = [[0, 1], [0, 1], [2, 3], [0, 1, 2], [2, 3], [0, 1], [4], [], [0, 1, 2, 3]]
	genomes = [dict(key=f'g{i}', description=f'genome number {i}', taxon=1 + i % 2) for i in range(len(sigs))]
	return taxa, genomes, sigs


TOPMAP = [0, 1, 2 ** 63 - 1, 2 ** 63, 2 ** 64 - 1]       # order-preserving image of the universe 0..4 among 64-bit indices (k = 32), top bit set in two


def t_db(threads, top=False):
	from gambit.db import ReferenceDatabase
	from gambit.query import query, QueryParams
	from gambit.results import CSVResultsExporter, JSONResultsExporter
	from gambit.metric import jaccarddist
	from gambit._cython.threads import omp_set_num_threads
	sh = Shard()
	omp_set_num_threads(threads)
	ks = fixtures.kspec(32 if top else 5, 'AT')
	taxa, genomes, sigs = db_spec()
	lift = (lambda s: [TOPMAP[x] for x in s]) if top else (lambda s: list(s))
	with fixtures.workdir('c09') as d:
		fixtures.write_genome_db(os.path.join(d, 'db.gdb'), taxa, genomes)
		# signature file order differs from genome insertion order and holds two extra signatures
		order = [3, 0, 8, 1, 'x1', 5, 2, 7, 4, 'x2', 6]
		fsigs = [lift(sigs[i] if isinstance(i, int) else [1, 4]) for i in order]
		fids = [f'g{i}' if isinstance(i, int) else i for i in order]
		fixtures.write_sigfile(os.path.join(d, 'db.gs'), ks, fsigs, ids=fids, id_attr='key')
		db = ReferenceDatabase.load_from_dir(d)
		# a second, smaller database (two genomes): one parameters object is used for it first and for the main database afterwards
		dsm = os.path.join(d, 'small')
		os.makedirs(dsm)
		fixtures.write_genome_db(os.path.join(dsm, 'db.gdb'), taxa, genomes[:2])
		fixtures.write_sigfile(os.path.join(dsm, 'db.gs'), ks, [lift(sigs[1]), lift(sigs[0])], ids=['g1', 'g0'], id_attr='key')
		dbsmall = ReferenceDatabase.load_from_dir(dsm)
		ref_order = [i for i in order if isinstance(i, int)]
		if [g.key for g in db.genomes] != [f'g{i}' for i in ref_order]:
			sh.violation('db-genome-order', dict(threads=threads, **(dict(top=True) if top else {})), [f'g{i}' for i in ref_order], [g.key for g in db.genomes])
			return sh
		qsets = [[x for b, x in enumerate(range(5)) if m >> b & 1] for m in range(32)]
		qarrs = fixtures.sig_arrays(ks, [lift(q) for q in qsets])
		refarrs = fixtures.sig_arrays(ks, [lift(sigs[i]) for i in ref_order])
		for chunksize in (1, 2, 3, 1000):
			for N in (1, 2, 3, 9, 14):
				params = QueryParams(report_closest=N, chunksize=chunksize)
				rs = query(dbsmall, qarrs[:3], params)
				sh.evals += 1
				if any(len(it.closest_genomes) != min(N, 2) for it in rs.items):
					sh.violation('db-closest-list', dict(query='small database', threads=threads, chunksize=chunksize, N=N, **(dict(top=True) if top else {})), min(N, 2), [len(it.closest_genomes) for it in rs.items])
				res = query(db, qarrs, params, inputs=[f'q{m}' for m in range(32)])      # the SAME parameters object as for the small database
				buf = io.StringIO()
				CSVResultsExporter().export(buf, res)
				rows = list(csv.DictReader(io.StringIO(buf.getvalue())))
				buf = io.StringIO()
				JSONResultsExporter().export(buf, res)
				js = json.loads(buf.getvalue())
				for m, item in enumerate(res.items):
					sh.evals += 1
					case = dict(query=qsets[m], threads=threads, chunksize=chunksize, N=N, **(dict(top=True) if top else {}))
					row = [exact_f32(qsets[m], sigs[i]) for i in ref_order]        # exact model, not the library's distance function
					exp = R.ref_closest(row, N)
					got = [ref_order.index(int(x.genome.key[1:])) for x in item.closest_genomes]
					if got != exp or [float(x.distance) for x in item.closest_genomes] != [row[i] for i in exp]:
						fk = tie_only(row, exp, got) if [float(x.distance) for x in item.closest_genomes] == [row[i] for i in got] else None
						sh.violation('db-closest-list', case, dict(order=exp, dists=[row[i] for i in exp]), dict(order=got, dists=[float(x.distance) for x in item.closest_genomes]), finding_key=fk)
						if fk is None:
							continue
						exp = got     # judge the remaining clauses (JSON / CSV agreement) relative to the list actually produced
					jl = js['items'][m]['closest_genomes']
					if [e['genome']['key'] for e in jl] != [f'g{ref_order[i]}' for i in exp] or [F32(e['distance']) for e in jl] != [F32(row[i]) for i in exp]:
						sh.violation('db-json-closest-list', case, [f'g{ref_order[i]}' for i in exp], [e['genome']['key'] for e in jl])
						continue
					if rows[m]['closest.description'] != jl[0]['genome']['description'] or rows[m]['query'] != js['items'][m]['query']['name']:
						ci = [i for i in range(len(row)) if f'genome number {ref_order[i]}' == rows[m]['closest.description']]
						fk = FINDING_TIE if ci and row[ci[0]] == row[exp[0]] and rows[m]['query'] == js['items'][m]['query']['name'] else None
						sh.violation('csv-json-closest-differ', case, jl[0]['genome']['description'], rows[m]['closest.description'], finding_key=fk)
						continue
					if F32(float(rows[m]['closest.distance'])) != F32(row[exp[0]]):
						sh.violation('csv-closest-distance', case, row[exp[0]], rows[m]['closest.distance'])
						continue
					k = len(exp)
					ds = [row[i] for i in exp]
					if any(ds[i] == ds[i + 1] for i in range(k - 1)) or (k < len(row) and row.count(ds[-1]) > ds.count(ds[-1])):
						sh.nontrivial += 1
						sh.count('db_queries_with_observable_tie')
					sh.outcome(['db', got, N])
		db.signatures.close()
		db.session.close()
		dbsmall.signatures.close()
		dbsmall.session.close()
	sh.sample(dict(family='db', threads=threads, query=qsets[-1], chunksize=chunksize, N=N, closest=got))
	return sh


def finalize(agg, tier):
	from mc.core import Vacuous
	agg.require('rows_with_observable_tie', 1000)
	agg.require('db_queries_with_observable_tie', 100)
	# determinism across CPU-dispatch settings: same digest for the same slice
	by = {}
	simd = {}
	for e in agg.extra:
		if 'slice' in e:
			by.setdefault(tuple(e['slice']), {})[e['cpu']] = e['digest']
			simd[e['cpu']] = e['simd']
	if not by or any(len(v) != len(CPUS) for v in by.values()):
		raise Vacuous('not every slice ran under every CPU setting')
	agg.coverage_extra['cpu_settings'] = {c: simd.get(c) for c in CPUS}
	agg.coverage_extra['slices_compared_across_cpu_settings'] = len(by)
	agg.coverage_extra['cross_cpu_digests_equal'] = all(len(set(v.values())) == 1 for v in by.values())
	if len({tuple(v) for v in simd.values()}) < 2:
		raise Vacuous('CPU feature settings did not change the enabled SIMD set')


def replay(case, kind=None):
	sh = Shard()
	if 'row' in case:
		cpu = case.get('cpu') or 'default'
		if CPUS.get(cpu) and os.environ.get('NPY_DISABLE_CPU_FEATURES') != CPUS[cpu]:
			r = child.run('mc.props.c09', 'replay_child', dict(case=case), env={'NPY_DISABLE_CPU_FEATURES': CPUS[cpu]})
			return r
		return replay_child(case)
	return t_db(case['threads'], top=bool(case.get('top'))).violations


def replay_child(case):
	sh = Shard()
	if case.get('previous_call'):
		check_row(Shard(), tuple(case['previous_call']['row']), case['previous_call']['N'], case.get('cpu'))
	check_row(sh, tuple(case['row']), case['N'], case.get('cpu'))
	return sh.violations


MANIFEST = dict(
	engine='E-enum',
	technique='bounded exhaustive enumeration of distance rows (all tie patterns) x list lengths x CPU-dispatch settings on the real result builder',
	text='Every 3-valued row up to length 8 (10), every 2-valued row of length 12 (..18), every two-minima row up to 100 references is ranked by the '
	     'real get_result_item under each NumPy SIMD dispatch setting available on this CPU, and compared with the (distance, position) order; a persisted '
	     'database with identical/equidistant genomes is queried for every subset query x threads x chunk size and the CSV/JSON exports are cross-checked.',
	note='CPU features can only be switched off; rows > 100 references not explored.',
)
