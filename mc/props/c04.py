"""C04 - each reference genome is compared through its own signature, matched by ID.

Positive space: genome sets of n<=3 (4) genomes with pairwise distinct signatures; signature files whose ID list is EVERY permutation of
(genome IDs + e<=2 extra IDs); x the four identifier attributes x the container the file was written from.
Negative space: every non-empty subset of genome IDs missing from the file; id_attr absent; a genome lacking the attribute; every subset of
{a.gdb, b.db, c.gs, d.h5, notes.txt, sub/} as directory contents.
All through the real ReferenceDatabase.load_from_dir / query on real SQLite + HDF5 files.
"""
import itertools
import os
import shutil
from mc.core import Shard
from mc import fixtures
import numpy as np

ID = 'C04'
LEVEL = 'exploration'
RULE = ('every (id attribute, container, n, e, permutation of the n+e IDs); every way of violating completeness; every directory content; non-trivial = the '
        'file order differs from the genome order or holds extra signatures (alignment by position would be wrong), or a load that must fail')
ASSUMPTIONS = ['genome sets of at most 3 (quick) / 4 (thorough) genomes with at most 2 unrelated signatures in the file']

ATTRS = ['key', 'genbank_acc', 'refseq_acc', 'ncbi_id']
SIGS = [[1, 2, 3], [3, 4], [5], [1, 2, 3, 4, 5, 6]]
EXTRA = [[7, 8], [1]]


def plan(tier, seed):
	nmax = 3 if tier == 'quick' else 4
	tasks = []
	for attr in ATTRS:
		for container in ('array', 'list'):
			tasks.append(('t_perms', dict(attr=attr, container=container, nmax=nmax)))
	for attr in ('key', 'ncbi_id'):
		tasks.append(('t_many', dict(attr=attr, n=1200 if tier == 'quick' else 5000)))
	tasks.append(('t_two_sets', dict()))
	tasks.append(('t_negative', dict()))
	tasks.append(('t_no_taxon', dict()))
	tasks.append(('t_dirs', dict()))
	return tasks


def _exact(A, B):
	import struct
	from mc import refmodel as R
	return struct.unpack('<f', struct.pack('<I', R.ref_jaccard_f32(list(A), list(B))))[0]


def genome_specs(n, missing_attr=None):
	out = []
	for i in range(n):
		g = dict(key=f'set/g{i}', description=f'G{i}', taxon=0, genbank_acc=f'GCA_{i}', refseq_acc=f'GCF_{i}', ncbi_db='assembly', ncbi_id=1000 + i)
		if missing_attr is not None and i == n - 1:
			g[missing_attr] = None
		out.append(g)
	return out


def id_of(g, attr):
	return g[attr]


TAXA = [dict(name='T', parent=None, thr=0.9)]


def verify_db(sh, db, gspecs, attr, case, ks, with_query=True):
	"""Alignment oracle on a loaded database."""
	from gambit.query import query, QueryParams
	from gambit.metric import jaccarddist
	n = len(gspecs)
	by_id = {id_of(g, attr): i for i, g in enumerate(gspecs)}
	sigarrs = fixtures.sig_arrays(ks, SIGS[:n])
	if len(db.genomes) != n or len(db.sig_indices) != n or len({g.key for g in db.genomes}) != n:
		sh.violation('genome-list', case, n, [g.key for g in db.genomes])
		return False
	ids = list(db.signatures.ids)
	for g, si in zip(db.genomes, db.sig_indices):
		gi = by_id[getattr(g.genome, attr)]
		stored = ids[si]
		stored = stored.item() if isinstance(stored, np.generic) else stored
		if stored != getattr(g.genome, attr):
			sh.violation('sig-index-id-mismatch', case, getattr(g.genome, attr), stored)
			return False
		if np.asarray(db.signatures[si]).tolist() != sigarrs[gi].tolist():
			sh.violation('sig-index-signature-mismatch', case, sigarrs[gi].tolist(), np.asarray(db.signatures[si]).tolist())
			return False
	if not with_query:
		return True
	# distances: query = genome j's signature
	for chunksize in (1, 1000):
		res = query(db, sigarrs, QueryParams(report_closest=n + 2, chunksize=chunksize))
		sh.evals += 1
		for j, item in enumerate(res.items):
			seen = {}
			for m in item.closest_genomes:
				seen[by_id[getattr(m.genome.genome, attr)]] = float(m.distance)
			import struct
			from mc import refmodel as R
			exp = {i: struct.unpack('<f', struct.pack('<I', R.ref_jaccard_f32(sigarrs[j].tolist(), sigarrs[i].tolist())))[0] for i in range(n)}
			if seen != exp or exp[j] != 0.0 or any(exp[i] == 0.0 for i in range(n) if i != j):
				sh.violation('distance-not-from-own-signature', dict(case, query=j, chunksize=chunksize), exp, seen)
				return False
	return True


def t_perms(attr, container, nmax):
	from gambit.db import ReferenceDatabase
	sh = Shard()
	ks = fixtures.kspec(5, 'AT')
	with fixtures.workdir('c04') as d:
		for n in range(1, nmax + 1):
			gspecs = genome_specs(n)
			dbdir = os.path.join(d, f'db{n}')
			os.makedirs(dbdir)
			fixtures.write_genome_db(os.path.join(dbdir, 'g.gdb'), TAXA, gspecs)
			gids = [id_of(g, attr) for g in gspecs]
			for e in range(0, 3):
				if n + e > (5 if nmax == 3 else 6):
					continue
				# unrelated IDs; for the string attributes they differ from genome IDs only by surrounding white space / case (exact match is required)
				xids = [gids[0] + ' ', '\t' + gids[-1].upper()][:e] if attr != 'ncbi_id' else [5 + x for x in range(e)]
				entries = [(gids[i], SIGS[i]) for i in range(n)] + [(xids[x], EXTRA[x]) for x in range(e)]
				for perm in itertools.permutations(range(n + e)):
					order = [entries[p] for p in perm]
					sp = os.path.join(dbdir, 's.gs')
					if os.path.exists(sp):
						os.unlink(sp)
					ids = [o[0] for o in order]
					fixtures.write_sigfile(sp, ks, [o[1] for o in order], ids=np.array(ids) if attr == 'ncbi_id' else ids, id_attr=attr, container=container)
					case = dict(attr=attr, container=container, n=n, extra=e, file_order=[str(x) for x in ids])
					sh.evals += 1
					try:
						db = ReferenceDatabase.load_from_dir(dbdir)
					except Exception as ex:
						sh.violation('load-failed', case, 'loads', repr(ex))
						continue
					try:
						ok = verify_db(sh, db, gspecs, attr, case, ks)
					finally:
						db.signatures.close()
						db.session.close()
						db.session.get_bind().dispose()
					if ok:
						if e or list(perm) != sorted(perm):
							sh.nontrivial += 1
						if e:
							sh.count('files_with_unrelated_signatures')
						if [p for p in perm if p < n] != list(range(n)):
							sh.count('file_order_differs_from_genome_order')
						sh.outcome([n, e, list(perm)])
	sh.sample(dict(family='perms', **case))
	return sh


def t_many(attr, n):
	"""A genome set larger than SQLite's bound-variable limit and than the query chunk size: n genomes with pairwise distinct signatures, the
	signature file in a scrambled order with 50 unrelated signatures interspersed; alignment checked for every genome, distances for 40 probes;
	then the same with one signature missing (must fail)."""
	from gambit.db import ReferenceDatabase
	from gambit.query import query, QueryParams
	from gambit.metric import jaccarddist
	sh = Shard()
	ks = fixtures.kspec(8, 'AT')
	gspecs = [dict(key=f'set/g{i:05d}', description=f'G{i}', taxon=0, ncbi_db='assembly', ncbi_id=100000 + i) for i in range(n)]
	sigs = [sorted({i % 4 ** 8, (i * 7 + 1) % 4 ** 8, (i * 13 + 5000) % 4 ** 8, (i // 3) % 4 ** 8, 20000 + i}) for i in range(n)]      # pairwise distinct sets
	order = sorted(range(n), key=lambda i: (i * 7919) % n)            # a scrambling permutation (7919 is prime, n is not a multiple)
	entries = []
	for pos, i in enumerate(order):
		entries.append((gspecs[i][attr], sigs[i]))
		if pos % (n // 50) == 0:
			entries.append((f'unrelated{pos}' if attr == 'key' else 5 + pos, [pos % 4 ** 8, 60000]))
	with fixtures.workdir('c04m') as d:
		fixtures.write_genome_db(os.path.join(d, 'g.gdb'), TAXA, gspecs)
		ids = [e[0] for e in entries]
		fixtures.write_sigfile(os.path.join(d, 's.gs'), ks, [e[1] for e in entries], ids=np.array(ids) if attr == 'ncbi_id' else ids, id_attr=attr)
		case = dict(attr=attr, many=n)
		sh.evals += 1
		db = ReferenceDatabase.load_from_dir(d)
		try:
			by_id = {g[attr]: i for i, g in enumerate(gspecs)}
			fids = list(db.signatures.ids)
			ok = len(db.genomes) == n and len({g.key for g in db.genomes}) == n
			if ok:
				for g, si in zip(db.genomes, db.sig_indices):
					gi = by_id[getattr(g.genome, attr)]
					stored = fids[si].item() if isinstance(fids[si], np.generic) else fids[si]
					if stored != getattr(g.genome, attr) or np.asarray(db.signatures[si]).tolist() != sigs[gi]:
						sh.violation('sig-index-id-mismatch', dict(case, genome=gi), getattr(g.genome, attr), stored)
						ok = False
						break
			else:
				sh.violation('genome-list', case, n, len(db.genomes))
			if ok:
				probes = list(range(0, n, n // 40))
				qarrs = fixtures.sig_arrays(ks, [sigs[j] for j in probes])
				for chunksize in (1000, 333):
					res = query(db, qarrs, QueryParams(report_closest=n, chunksize=chunksize))
					for j, item in zip(probes, res.items):
						sh.evals += 1
						got = {by_id[getattr(m.genome.genome, attr)]: float(m.distance) for m in item.closest_genomes}
						if len(got) != n or got[j] != 0.0 or any(got[i] != _exact(sigs[j], sigs[i]) for i in range(0, n, 37)):
							sh.violation('distance-not-from-own-signature', dict(case, query=j, chunksize=chunksize), None, None)
							ok = False
							break
					if not ok:
						break
			if ok:
				sh.nontrivial += 1
				sh.count('many_genome_databases')
		finally:
			db.signatures.close(); db.session.close()
		# one signature missing somewhere in the middle
		k = n // 2
		ids2 = [x for x in ids if x != gspecs[k][attr]]
		sg2 = [e[1] for e in entries if e[0] != gspecs[k][attr]]
		os.unlink(os.path.join(d, 's.gs'))
		fixtures.write_sigfile(os.path.join(d, 's.gs'), ks, sg2, ids=np.array(ids2) if attr == 'ncbi_id' else ids2, id_attr=attr)
		sh.evals += 1
		try:
			db = ReferenceDatabase.load_from_dir(d)
			db.signatures.close(); db.session.close()
			sh.violation('incomplete-database-loaded', dict(attr=attr, n=n, why='one of many signatures missing', file_ids=[]), 'error', 'loaded')
		except Exception:
			sh.count('must_fail_missing_signature')
	sh.sample(dict(family='many', attr=attr, n=n))
	return sh


def t_two_sets():
	"""One genome file holding TWO genome sets that annotate overlapping genomes (different taxonomies): a database object built for one set must
	contain exactly that set's annotated genomes, each paired with its own signature, for every id attribute and file order."""
	from sqlalchemy import create_engine
	from sqlalchemy.orm import sessionmaker
	from gambit.db.models import Base, ReferenceGenomeSet, Taxon, Genome, AnnotatedGenome
	from gambit.db import ReferenceDatabase
	from gambit.db.sqla import file_sessionmaker
	from gambit.sigs.base import load_signatures
	sh = Shard()
	ks = fixtures.kspec(5, 'AT')
	members = {'A': [0, 1, 2], 'B': [1, 2, 3]}
	with fixtures.workdir('c04t') as d:
		path = os.path.join(d, 'two.gdb')
		engine = create_engine(f'sqlite:///{path}')
		Base.metadata.create_all(engine)
		session = sessionmaker(engine)()
		gspecs = genome_specs(4)
		genomes = [Genome(key=g['key'], description=g['description'], ncbi_db=g['ncbi_db'], ncbi_id=g['ncbi_id'], genbank_acc=g['genbank_acc'], refseq_acc=g['refseq_acc']) for g in gspecs]
		for name in ('A', 'B'):
			gset = ReferenceGenomeSet(key='set/' + name, version='1', name='set ' + name)
			tax = Taxon(key='t' + name, name='taxon of ' + name, distance_threshold=0.9 if name == 'A' else 0.1, genome_set=gset)
			session.add_all([gset, tax])
			for i in members[name]:
				session.add(AnnotatedGenome(genome=genomes[i], genome_set=gset, taxon=tax, organism='in ' + name))
		session.commit(); session.close(); engine.dispose()
		for attr in ATTRS:
			for order in ([0, 1, 2, 3], [3, 2, 1, 0], [2, 0, 3, 1]):
				sp = os.path.join(d, 's.gs')
				if os.path.exists(sp):
					os.unlink(sp)
				ids = [gspecs[i][attr] for i in order]
				fixtures.write_sigfile(sp, ks, [SIGS[i] for i in order], ids=np.array(ids) if attr == 'ncbi_id' else ids, id_attr=attr)
				for name in ('A', 'B'):
					sess = file_sessionmaker(path)()
					gset = sess.query(ReferenceGenomeSet).filter_by(key='set/' + name).one()
					sigs = load_signatures(sp)
					case = dict(attr=attr, two_sets=name, file_order=[str(x) for x in ids])
					sh.evals += 1
					try:
						db = ReferenceDatabase(gset, sigs)
						keys = sorted(g.key for g in db.genomes)
						want = sorted(gspecs[i]['key'] for i in members[name])
						foreign = [g.key for g in db.genomes if g.genome_set_id != gset.id or g.taxon.key != 't' + name]
						ok = keys == want and not foreign
						if ok:
							fids = list(sigs.ids)
							for g, si in zip(db.genomes, db.sig_indices):
								gi = next(i for i, gs in enumerate(gspecs) if gs['key'] == g.key)
								stored = fids[si].item() if isinstance(fids[si], np.generic) else fids[si]
								if stored != gspecs[gi][attr] or np.asarray(sigs[si]).tolist() != sorted(SIGS[gi]):
									ok = False
						if not ok:
							sh.violation('genomes-of-another-set', case, want, dict(keys=keys, foreign=foreign))
						else:
							sh.nontrivial += 1
							sh.count('two_set_databases')
					except Exception as e:
						sh.violation('load-failed', case, 'loads', repr(e))
					finally:
						sigs.close(); sess.close(); sess.get_bind().dispose()
	sh.sample(dict(family='two-sets', members=members))
	return sh


def t_no_taxon():
	"""Genome sets in which some genomes are not assigned to any taxon (the column is nullable): they are genomes of the set like the others and
	must be paired with their signatures; the database loads, complete and aligned (classification of such genomes is not this property)."""
	from gambit.db import ReferenceDatabase
	sh = Shard()
	ks = fixtures.kspec(5, 'AT')
	with fixtures.workdir('c04z') as d:
		for attr in ATTRS:
			for n in (1, 2, 3):
				for mask in range(1, 2 ** n):
					gspecs = genome_specs(n)
					for i in range(n):
						if mask >> i & 1:
							gspecs[i]['taxon'] = None
					for perm in ([list(range(n))] if n < 3 else [[0, 1, 2], [2, 0, 1]]):
						dbdir = os.path.join(d, f'db-{attr}-{n}-{mask}-{perm[0]}')
						os.makedirs(dbdir)
						fixtures.write_genome_db(os.path.join(dbdir, 'g.gdb'), TAXA, gspecs)
						ids = [id_of(gspecs[i], attr) for i in perm] + ([90] if attr == 'ncbi_id' else ['unrelated'])
						fixtures.write_sigfile(os.path.join(dbdir, 's.gs'), ks, [SIGS[i] for i in perm] + [EXTRA[0]], ids=np.array(ids) if attr == 'ncbi_id' else ids, id_attr=attr)
						case = dict(attr=attr, n=n, genomes_without_taxon=[i for i in range(n) if mask >> i & 1], file_order=perm, no_taxon=True)
						sh.evals += 1
						try:
							db = ReferenceDatabase.load_from_dir(dbdir)
						except Exception as e:
							sh.violation('complete-database-refused', case, 'loads', repr(e)[:300])
							continue
						try:
							if verify_db(sh, db, gspecs, attr, case, ks, with_query=False):
								sh.nontrivial += 1
								sh.count('databases_with_taxon_less_genomes')
						finally:
							db.signatures.close(); db.session.close()
	sh.sample(dict(family='no-taxon', attrs=ATTRS))
	return sh


def t_negative():
	from gambit.db import ReferenceDatabase
	sh = Shard()
	ks = fixtures.kspec(5, 'AT')
	with fixtures.workdir('c04n') as d:
		qsig = os.path.join(d, 'query.gs')
		fixtures.write_sigfile(qsig, ks, SIGS[:1], ids=['q'], id_attr=None)
		for attr in ATTRS:
			for n in range(1, 4):
				gspecs = genome_specs(n)
				dbdir = os.path.join(d, f'db-{attr}-{n}')
				os.makedirs(dbdir)
				fixtures.write_genome_db(os.path.join(dbdir, 'g.gdb'), TAXA, gspecs)
				gids = [id_of(g, attr) for g in gspecs]
				sp = os.path.join(dbdir, 's.gs')

				def expect_fail(ids, sigs, id_attr, why):
					if os.path.exists(sp):
						os.unlink(sp)
					fixtures.write_sigfile(sp, ks, sigs, ids=np.array(ids) if ids and isinstance(ids[0], int) else (ids or None), id_attr=id_attr)
					sh.evals += 1
					# every way of obtaining a database: load_from_dir, load(two paths), the constructor (what the command line uses), the CLI itself
					ways = ['load_from_dir', 'load', 'constructor', 'cli-query']
					for way in ways:
						try:
							if way == 'load_from_dir':
								db = ReferenceDatabase.load_from_dir(dbdir)
							elif way == 'load':
								db = ReferenceDatabase.load(os.path.join(dbdir, 'g.gdb'), sp)
							elif way == 'constructor':
								from gambit.db import load_genomeset
								from gambit.sigs.base import load_signatures
								session, gset = load_genomeset(os.path.join(dbdir, 'g.gdb'))
								sigobj = load_signatures(sp)
								try:
									db = ReferenceDatabase(gset, sigobj)
								except Exception:
									sigobj.close(); session.close()
									raise
							else:
								code, stdout, exc, err = fixtures.run_cli(['-d', dbdir, 'query', '--no-progress', '-o', os.path.join(dbdir, 'out.csv'), '-s', qsig])
								if code == 0:
									sh.violation('incomplete-database-loaded', dict(attr=attr, n=n, why=why, way=way, file_ids=[str(x) for x in ids]), 'non-zero exit', 'exit 0')
									return
								continue
						except Exception as ex:
							if way == 'load_from_dir':
								sh.nontrivial += 1
								sh.count('must_fail_' + why)
								sh.outcome([why, type(ex).__name__])
							continue
						try:
							db.signatures.close(); db.session.close()
						except Exception:
							pass
						sh.violation('incomplete-database-loaded', dict(attr=attr, n=n, why=why, way=way, file_ids=[str(x) for x in ids]), 'error', 'loaded')
						return

				# every non-empty subset of genome IDs removed, with 0..1 unrelated signatures present
				for r in range(1, n + 1):
					for removed in itertools.combinations(range(n), r):
						for extra in (0, 1, r):
							keep = [i for i in range(n) if i not in removed]
							# the unrelated signatures carry near-miss IDs of the REMOVED genomes (white space appended / prepended)
							xid = ([gids[removed[x % len(removed)]] + ' ' * (1 + x // len(removed)) for x in range(extra)]) if attr != 'ncbi_id' else [90 + x for x in range(extra)]
							ids = [gids[i] for i in keep] + xid
							sigs = [SIGS[i] for i in keep] + [EXTRA[0]] * extra
							if not ids:
								continue
							expect_fail(ids, sigs, attr, 'missing_signature')
				# id_attr absent from the metadata
				expect_fail(gids, SIGS[:n], None, 'no_id_attr')
				# IDs of another attribute (nothing matches)
				other = 'key' if attr != 'key' else 'refseq_acc'
				oids = [id_of(g, other) for g in gspecs]
				if attr != 'ncbi_id':
					expect_fail(oids, SIGS[:n], attr, 'ids_of_other_attribute')
			# a genome lacking the attribute
			if attr != 'key':
				gspecs = genome_specs(2, missing_attr=attr)
				dbdir = os.path.join(d, f'dbm-{attr}')
				os.makedirs(dbdir)
				fixtures.write_genome_db(os.path.join(dbdir, 'g.gdb'), TAXA, gspecs)
				sp = os.path.join(dbdir, 's.gs')
				gids = [id_of(g, attr) for g in gspecs if id_of(g, attr) is not None]
				fixtures.write_sigfile(sp, ks, SIGS[:len(gids)], ids=np.array(gids) if attr == 'ncbi_id' else gids, id_attr=attr)
				sh.evals += 1
				try:
					db = ReferenceDatabase.load_from_dir(dbdir)
					db.signatures.close(); db.session.close()
					sh.violation('genome-without-id-loaded', dict(attr=attr), 'error', 'loaded')
				except Exception:
					sh.nontrivial += 1
					sh.count('must_fail_genome_lacks_attribute')
		# genomes that share an ncbi_id under different ncbi_db values (the column is unique only per database): the signature file (unique IDs) can
		# hold a signature for one of them only; loading must fail, or else every genome of the set must be in the database
		for n in (2, 3, 4):
			for shared in itertools.combinations(range(n), 2):
				for order in ((0, 1), (1, 0)):
					gspecs = genome_specs(n)
					gspecs[shared[1]]['ncbi_id'] = gspecs[shared[0]]['ncbi_id']
					gspecs[shared[order[0]]]['ncbi_db'] = 'nuccore'
					dbdir = os.path.join(d, f'dbdup-{n}-{shared[0]}{shared[1]}-{order[0]}')
					os.makedirs(dbdir)
					fixtures.write_genome_db(os.path.join(dbdir, 'g.gdb'), TAXA, gspecs)
					uniq = sorted({g['ncbi_id'] for g in gspecs})
					for extra in (0, 1):
						ids = uniq + [90 + x for x in range(extra)]
						sp = os.path.join(dbdir, 's.gs')
						if os.path.exists(sp):
							os.unlink(sp)
						fixtures.write_sigfile(sp, ks, (SIGS * 2)[:len(ids)], ids=np.array(ids), id_attr='ncbi_id')
						sh.evals += 1
						try:
							db = ReferenceDatabase.load_from_dir(dbdir)
						except Exception as ex:
							sh.nontrivial += 1
							sh.count('must_fail_shared_ncbi_id')
							sh.outcome(['shared_ncbi_id', type(ex).__name__])
							continue
						got = sorted(g.key for g in db.genomes)
						db.signatures.close(); db.session.close()
						if got != sorted(g['key'] for g in gspecs):
							sh.violation('incomplete-database-loaded', dict(attr='ncbi_id', n=n, why='shared_ncbi_id', shared=list(shared), nuccore=shared[order[0]], file_ids=[str(x) for x in ids]),
							             'error, or all genomes present', dict(genomes_in_database=got))
	sh.sample(dict(family='negative', attrs=ATTRS))
	return sh


def t_dirs():
	from gambit.db import ReferenceDatabase
	sh = Shard()
	ks = fixtures.kspec(5, 'AT')
	items = ['a.gdb', 'b.db', 'c.gs', 'd.h5', 'notes.txt', 'sub']
	with fixtures.workdir('c04d') as d:
		src = os.path.join(d, 'src')
		os.makedirs(src)
		gspecs = genome_specs(2)
		fixtures.write_genome_db(os.path.join(src, 'g.gdb'), TAXA, gspecs)
		fixtures.write_sigfile(os.path.join(src, 's.gs'), ks, SIGS[:2], ids=[g['key'] for g in gspecs], id_attr='key')
		# hidden (dot-) files and other odd names carrying the same extensions, each added alone to every subset of the visible items
		odd = [None, '.a2.gdb', '._b.db', '.c-backup.gs', '._d.h5', 'e.gdb.bak', 'f.GS', 'g h.gs', '[x].gdb', '.DS_Store',
		       # symbolic links: to a genome / signature file outside the directory, and a second name for a file of the directory itself
		       'ext-link.gdb', 'ext-link.h5', 'current.gdb->a.gdb', 'current.h5->c.gs']
		for mask, extra_item in itertools.product(range(64), odd):
			present = [it for b, it in enumerate(items) if mask >> b & 1] + ([extra_item] if extra_item else [])
			dd = os.path.join(d, f'dir{mask}-{odd.index(extra_item)}')
			os.makedirs(dd)
			if extra_item and '->' in extra_item and extra_item.split('->')[1] not in present:
				continue          # a second name needs the first one
			for it in present:
				if '->' in it:
					os.symlink(it.split('->')[1], os.path.join(dd, it.split('->')[0]))
				elif it == 'ext-link.gdb':
					os.symlink(os.path.join(src, 'g.gdb'), os.path.join(dd, it))
				elif it == 'ext-link.h5':
					os.symlink(os.path.join(src, 's.gs'), os.path.join(dd, it))
				elif it.endswith(('.gdb', '.db')):
					shutil.copy(os.path.join(src, 'g.gdb'), os.path.join(dd, it))
				elif it.endswith(('.gs', '.h5')):
					shutil.copy(os.path.join(src, 's.gs'), os.path.join(dd, it))
				elif it in ('notes.txt', 'e.gdb.bak', 'f.GS', '.DS_Store'):
					open(os.path.join(dd, it), 'w').write('x')
				else:
					os.makedirs(os.path.join(dd, it))
					shutil.copy(os.path.join(src, 'g.gdb'), os.path.join(dd, it, 'z.gdb'))
					shutil.copy(os.path.join(src, 's.gs'), os.path.join(dd, it, 'z.gs'))
			names = [it.split('->')[0] for it in present]
			ngen = sum(1 for it in names if it.endswith(('.gdb', '.db')))
			nsig = sum(1 for it in names if it.endswith(('.gs', '.h5')))
			should = ngen == 1 and nsig == 1
			sh.evals += 1
			try:
				db = ReferenceDatabase.load_from_dir(dd)
				loaded = True
				ok = len(db.genomes) == 2
				db.signatures.close(); db.session.close()
			except Exception as ex:
				loaded = False
			if loaded != should:
				sh.violation('directory-contents', dict(present=present), 'loads' if should else 'error', 'loaded' if loaded else 'error')
			else:
				sh.nontrivial += 1
				sh.count('dirs_loading' if should else 'dirs_refused')
		# missing directory / a file instead of a directory
		for p in (os.path.join(d, 'nope'), os.path.join(src, 'g.gdb')):
			sh.evals += 1
			try:
				ReferenceDatabase.load_from_dir(p)
				sh.violation('directory-contents', dict(present=p), 'error', 'loaded')
			except Exception:
				sh.count('dirs_refused')
	sh.sample(dict(family='dirs', items=items, odd_names=odd[1:], subsets=64 * len(odd)))
	return sh


def finalize(agg, tier):
	for c in ('files_with_unrelated_signatures', 'file_order_differs_from_genome_order', 'must_fail_missing_signature', 'must_fail_no_id_attr',
	          'must_fail_genome_lacks_attribute', 'dirs_loading', 'dirs_refused'):
		agg.require(c, 3)
	agg.require('many_genome_databases', 2)
	agg.require('two_set_databases', 12)


def replay(case, kind=None):
	if case.get('no_taxon'):
		return [v for v in t_no_taxon().violations if v['case'] == case][:1]
	from gambit.db import ReferenceDatabase
	sh = Shard()
	ks = fixtures.kspec(5, 'AT')
	if 'two_sets' in case:
		return [v for v in t_two_sets().violations if v['case'] == case][:1] or t_two_sets().violations[:1]
	if 'many' in case:
		return [v for v in t_many(case['attr'], case['many']).violations][:1]
	if 'file_order' in case:
		attr, n = case['attr'], case['n']
		gspecs = genome_specs(n)
		with fixtures.workdir('c04r') as d:
			fixtures.write_genome_db(os.path.join(d, 'g.gdb'), TAXA, gspecs)
			gids = {str(id_of(g, attr)): (id_of(g, attr), SIGS[i]) for i, g in enumerate(gspecs)}
			x = 0
			ids, sigs = [], []
			for s in case['file_order']:
				if s in gids:
					ids.append(gids[s][0]); sigs.append(gids[s][1])
				else:
					ids.append(int(s) if attr == 'ncbi_id' else s); sigs.append(EXTRA[x]); x += 1
			fixtures.write_sigfile(os.path.join(d, 's.gs'), ks, sigs, ids=np.array(ids) if attr == 'ncbi_id' else ids, id_attr=attr, container=case.get('container', 'array'))
			try:
				db = ReferenceDatabase.load_from_dir(d)
			except Exception as ex:
				sh.violation('load-failed', case, 'loads', repr(ex))
				return sh.violations
			verify_db(sh, db, gspecs, attr, case, ks)
			db.signatures.close(); db.session.close()
		return sh.violations
	if 'present' in case:
		return [v for v in t_dirs().violations if v['case'] == case]
	return [v for v in t_negative().violations if v['case'] == case]


MANIFEST = dict(
	engine='E-enum',
	technique='bounded exhaustive enumeration of signature-file ID orders / incomplete files / directory contents on real SQLite+HDF5 databases',
	text='For each of the four ID attributes and both write paths, every permutation of (genome IDs + <=2 unrelated IDs) for <=3 (4) genomes is written '
	     'to a real signature file, loaded with load_from_dir and checked: ids[sig_indices[i]] is genome i\'s ID, the signature there is genome i\'s, and '
	     'query distances equal the pairwise distance to that genome\'s own signature; every incomplete file, missing id_attr, genome without ID and '
	     'every subset of directory contents must fail / load exactly as stated.',
	note='<=4 genomes, <=2 unrelated signatures; SQLite/HDF5 as installed.',
)
