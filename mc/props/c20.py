"""C20 - signature collections index like NumPy sequences and compare by content.

(a) E-enum: every index expression (ints of several types, every slice start/stop in {none,-6..6} x step in {none,-3..3}, every integer index
    sequence of length<=3 over [-n-1,n] in 7 container kinds, every boolean mask of length n-1,n,n+1, ill-typed indices) on collections of
    length 0..4 (5) for SignatureArray, SignatureList and file-backed HDF5Signatures.  Oracle: a plain Python list.
(b) E-bfs: explicit-state search over SignatureList mutation histories; state = tuple of element labels; every transition executed on a
    fresh real SignatureList built from the state; reference model: list.
(c) all equality pairs over container kinds x kmerspecs x contents.
"""
import array
import itertools
import os
from mc.core import Shard
from mc import fixtures
import numpy as np

ID = 'C20'
LEVEL = 'model_checking'
RULE = ('(a) every (collection kind, length, index expression); (b) every reachable SignatureList state x every mutation event to the stated depth; '
        '(c) every ordered pair of collections; non-trivial = index expression that selects >=1 element or must raise / mutation that changes the state / '
        'pair that differs in exactly one aspect')
ASSUMPTIONS = [
	'collections longer than 5 and index sequences longer than 3 are not explored',
	'(b) canonical state = tuple of element identities: a SignatureList holds only its list, kmerspec and dtype, and kmerspec/dtype are constant along a '
	'history, so two histories reaching the same tuple have the same futures',
	'exception classes are compared by family: IndexError for out-of-range, TypeError/IndexError for ill-typed indices, ValueError for step 0',
]

KS = None


def kspec():
	global KS
	if KS is None:
		KS = fixtures.kspec(6, 'AT')     # index dtype uint16
	return KS


def contents(n):
	"""n distinguishable signatures incl. an empty one."""
	base = [[1, 5, 9], [], [2], [0, 1, 2, 3], [7, 4000], [5, 9]]
	return [np.array(base[i], dtype='u2') for i in range(n)]


def plan(tier, seed):
	nmax = 4 if tier == 'quick' else 5
	tasks = []
	for kind in ('array', 'list', 'hdf5', 'array-window', 'array-view', 'hdf5-view'):
		for n in range(0, nmax + 1):
			tasks.append(('t_index', dict(kind=kind, n=n)))
	for kind in ('array', 'list', 'hdf5'):
		tasks.append(('t_long_collections', dict(kind=kind, tier=tier)))
	tasks.append(('t_mutations', dict(depth=3 if tier == 'quick' else 5, maxlen=4 if tier == 'quick' else 5)))
	tasks.append(('t_equality', dict()))
	return tasks


class Coll:
	"""Context manager building one collection of each kind over the same contents."""

	def __init__(self, kind, n):
		self.kind, self.n = kind, n

	def __enter__(self):
		from gambit.sigs.base import SignatureArray, SignatureList, dump_signatures, load_signatures
		self.items = contents(self.n)
		self.wd = None
		pad = [np.array([11, 12, 13], dtype='u2'), np.array([], dtype='u2'), np.array([4095], dtype='u2')]
		if self.kind == 'array':
			self.obj = SignatureArray(self.items, kspec(), dtype=np.dtype('u2'))
		elif self.kind == 'array-window':
			# a zero-copy window onto a larger values array: bounds that do not start at zero
			big = SignatureArray(pad + self.items + pad[:1], kspec(), dtype=np.dtype('u2'))
			self.obj = SignatureArray.from_arrays(big.values, np.asarray(big.bounds)[3:3 + self.n + 1], kspec())
		elif self.kind == 'array-view':
			# a slice of a slice of a larger concatenated array
			big = SignatureArray(pad + self.items + pad[:2], kspec(), dtype=np.dtype('u2'))
			self.obj = big[1:][2:2 + self.n]
		elif self.kind == 'hdf5-view':
			self.wd = fixtures.workdir('c20')
			d = self.wd.__enter__()
			p = os.path.join(d, 's.gs')
			dump_signatures(p, SignatureArray(pad + self.items + pad[:1], kspec(), dtype=np.dtype('u2')))
			self.file = load_signatures(p)
			self.obj = self.file[3:3 + self.n]
		elif self.kind == 'list':
			self.obj = SignatureList(self.items, kspec(), dtype=np.dtype('u2'))
		else:
			self.wd = fixtures.workdir('c20')
			d = self.wd.__enter__()
			p = os.path.join(d, 's.gs')
			dump_signatures(p, SignatureArray(self.items, kspec(), dtype=np.dtype('u2')))
			self.obj = load_signatures(p)
		return self

	def __exit__(self, *a):
		if self.wd is not None:
			getattr(self, 'file', self.obj).close()
			self.wd.__exit__(*a)


def snapshot(ix):
	"""Byte-level image of an index container (to check it is left unmodified)."""
	if isinstance(ix, np.ndarray):
		return ('nd', ix.dtype.str, ix.tobytes())
	if isinstance(ix, array.array):
		return ('arr', ix.typecode, ix.tobytes())
	if isinstance(ix, memoryview):
		return ('mv', ix.tobytes())
	if isinstance(ix, (list, tuple)):
		return (type(ix).__name__, repr(ix))
	return ('other', repr(ix))


def describe(ix):
	if isinstance(ix, np.ndarray):
		return dict(ndarray=ix.tolist(), dtype=ix.dtype.str)
	if isinstance(ix, array.array):
		return dict(array=ix.tolist(), typecode=ix.typecode)
	if isinstance(ix, memoryview):
		return dict(memoryview=ix.tolist(), format=ix.format)
	if isinstance(ix, slice):
		return dict(slice=[ix.start, ix.stop, ix.step])
	if isinstance(ix, range):
		return dict(range=[ix.start, ix.stop, ix.step])
	if isinstance(ix, np.generic):
		return dict(npscalar=ix.item(), dtype=ix.dtype.str)
	if isinstance(ix, (list, tuple)):
		return {type(ix).__name__: [x if isinstance(x, (int, bool, float, str)) or x is None else repr(x) for x in ix]}
	return dict(value=repr(ix), type=type(ix).__name__)


def undescribe(d):
	if 'ndarray' in d:
		return np.array(d['ndarray'], dtype=d['dtype'])
	if 'array' in d:
		return array.array(d['typecode'], d['array'])
	if 'memoryview' in d:
		return memoryview(array.array(d['format'], d['memoryview']))
	if 'slice' in d:
		return slice(*d['slice'])
	if 'range' in d:
		return range(*d['range'])
	if 'npscalar' in d:
		return np.dtype(d['dtype']).type(d['npscalar'])
	if 'list' in d:
		return list(d['list'])
	if 'tuple' in d:
		return tuple(d['tuple'])
	t = d['type']
	return {'float': lambda: float(d['value']), 'str': lambda: eval(d['value']), 'NoneType': lambda: None, 'ellipsis': lambda: Ellipsis}[t]()


def model_select(L, ix, what):
	"""what: 'int' | 'slice' | 'ints' | 'mask' | 'bad'.  Returns ('item', i) | ('sub', [positions]) | ('raise', classes)."""
	n = len(L)
	if what == 'int':
		i = int(ix)
		try:
			return ('item', range(n)[i])
		except IndexError:
			return ('raise', (IndexError,))
	if what == 'slice':
		try:
			return ('sub', list(range(n)[ix]))
		except ValueError:
			return ('raise', (ValueError,))
	if what == 'ints':
		vals = [int(x) for x in (ix.tolist() if hasattr(ix, 'tolist') else list(ix))]
		out = []
		for v in vals:
			if not -n <= v < n:
				return ('raise', (IndexError,))
			out.append(v % n if n else v)
		return ('sub', out)
	if what == 'mask':
		vals = [bool(x) for x in (ix.tolist() if hasattr(ix, 'tolist') else ix)]
		if len(vals) != n:
			return ('raise', (IndexError,))
		return ('sub', [i for i, b in enumerate(vals) if b])
	return ('raise', (TypeError, IndexError))


def check_index(sh, c, ix, what):
	from gambit.sigs.base import AbstractSignatureArray
	L = c.items
	exp = model_select(L, ix, what)
	before = snapshot(ix)
	case = dict(kind=c.kind, n=c.n, index=describe(ix), what=what)
	sh.evals += 1
	try:
		got = c.obj[ix]
		err = None
	except Exception as e:
		got, err = None, e
	if snapshot(ix) != before:
		sh.violation('index-container-modified', case, before, snapshot(ix))
		return
	if exp[0] == 'raise':
		if err is None:
			sh.violation('no-error', case, [e.__name__ for e in exp[1]], 'returned ' + type(got).__name__)
		elif not isinstance(err, exp[1]):
			sh.violation('wrong-error-class', case, [e.__name__ for e in exp[1]], type(err).__name__)
		else:
			sh.nontrivial += 1
			sh.count('must_raise')
		return
	if err is not None:
		sh.violation('unexpected-error', case, exp, repr(err))
		return
	if exp[0] == 'item':
		if not isinstance(got, np.ndarray) or got.dtype != L[exp[1]].dtype or got.tolist() != L[exp[1]].tolist():
			sh.violation('wrong-item', case, L[exp[1]].tolist(), repr(got))
		else:
			sh.nontrivial += 1
		return
	pos = exp[1]
	if not isinstance(got, AbstractSignatureArray):
		sh.violation('not-a-collection', case, 'AbstractSignatureArray', type(got).__name__)
		return
	ok = len(got) == len(pos) and got.kmerspec == kspec() and np.dtype(got.dtype) == np.dtype('u2')
	if ok:
		for j, p in enumerate(pos):
			g = np.asarray(got[j])
			if g.dtype != np.dtype('u2') or g.tolist() != L[p].tolist():
				ok = False
	if not ok:
		sh.violation('wrong-subcollection', case, dict(positions=pos), dict(len=len(got), dtype=str(got.dtype), kmerspec=repr(got.kmerspec),
		             items=[np.asarray(got[j]).tolist() for j in range(len(got))]))
		return
	# a sub-collection obtained EARLIER must still hold what it held (results of two selections from one object are independent values)
	prev = getattr(c, '_earlier', None)
	if prev is not None:
		pgot, ppos, pdesc, pwhat = prev
		try:
			still = len(pgot) == len(ppos) and all(np.asarray(pgot[j]).tolist() == L[p].tolist() for j, p in enumerate(ppos))
		except Exception:
			still = False
		if not still:
			sh.violation('earlier-subcollection-changed', dict(case, earlier_index=pdesc, earlier_what=pwhat), dict(positions=ppos),
			             dict(items=[np.asarray(pgot[j]).tolist() for j in range(len(pgot))] if hasattr(pgot, '__len__') else None))
			c._earlier = None
			return
		sh.count('earlier_results_rechecked')
	if pos:
		c._earlier = (got, list(pos), describe(ix), what)
	if pos:
		sh.nontrivial += 1
	if any(p != q for p, q in zip(pos, sorted(pos))) or len(set(pos)) != len(pos):
		sh.count('reordering_or_repeating_selection')
	sh.outcome([c.kind, c.n, pos])


def index_expressions(n):
	"""Yields (index, what)."""
	for i in range(-n - 2, n + 2):
		yield i, 'int'
		yield np.int64(i), 'int'
		yield np.int8(i), 'int'
		if i >= 0:
			yield np.uint8(i), 'int'
			yield np.uint64(i), 'int'
	rng = [None] + list(range(-6, 7))
	for start in rng:
		for stop in rng:
			for step in [None, -3, -2, -1, 0, 1, 2, 3]:
				yield slice(start, stop, step), 'slice'
	yield slice(np.int64(1), np.int64(3), np.int64(1)), 'slice'
	vals = list(range(-n - 1, n + 1))
	for m in range(0, 4):
		for t in itertools.product(vals, repeat=m):
			t = list(t)
			yield t, 'ints'
			yield tuple(t), 'ints'
			yield np.array(t, dtype='i8'), 'ints'
			if m:
				yield np.array(t, dtype='i1'), 'ints'
				yield array.array('q', t), 'ints'
				yield memoryview(array.array('q', t)), 'ints'
				yield array.array('b', t), 'ints'
				if all(v >= 0 for v in t):
					yield np.array(t, dtype='u2'), 'ints'
					yield np.array(t, dtype='u8'), 'ints'
				# non-contiguous view of a caller's array
				big = np.zeros(2 * m, dtype='i8')
				big[::2] = t
				yield big[::2], 'ints'
	# range objects: sequences of integers (each element judged as an integer index - NOT a slice: range(2, -1, -1) is [2, 1, 0])
	for start in range(-n - 1, n + 2):
		for stop in range(-n - 1, n + 2):
			for step in (1, 2, -1, -2):
				yield range(start, stop, step), 'ints'
	# the ends of every integer type's range (values that alias small negative or in-range indices once cast to another width)
	for dt in ('i1', 'i2', 'i4', 'i8', 'u1', 'u2', 'u4', 'u8'):
		info = np.iinfo(dt)
		ext = sorted({info.max - j for j in range(0, n + 2)} | {info.min + j for j in range(0, n + 2) if info.min < 0} | ({1 << 63, (1 << 63) - 1, (1 << 63) + 1} if dt == 'u8' else set())
		             | ({1 << 32, (1 << 32) - 1, -(1 << 32), (1 << 31), -(1 << 31) - 1} if dt == 'i8' else set()) | ({(1 << 32) - 1, 1 << 31} if dt == 'u4' else set()))
		for v in ext:
			yield np.dtype(dt).type(v), 'int'
			yield np.array([v], dtype=dt), 'ints'
			if n:
				yield np.array([0, v], dtype=dt), 'ints'
				yield np.array([v, n - 1, 0], dtype=dt), 'ints'
	for v in (2 ** 64 - 1, 2 ** 64, 2 ** 63, -2 ** 63, -2 ** 63 - 1, 2 ** 64 - n, 2 ** 32 - 1, 2 ** 100):
		yield v, 'int'
		yield [v], 'ints'
		if n:
			yield [0, v], 'ints'
	if n >= 2:
		for t in itertools.product(range(n), repeat=4):
			yield list(t), 'ints'
			yield np.array(t, dtype='i8'), 'ints'
	for ln in (n - 1, n, n + 1):
		if ln < 0:
			continue
		for t in itertools.product([False, True], repeat=ln):
			if ln:
				yield list(t), 'mask'
			yield np.array(t, dtype=bool), 'mask'
	for bad in (1.0, 'a', 'ab', None, Ellipsis, np.array([0.0, 1.0]), np.array([[0, 1]]), [0.5], ['a'], slice(0.0, 1), slice(None, None, 1.5),
	            slice('a', None), [[0], [1]], np.float64(1.0), [None]):
		yield bad, 'bad'


def t_index(kind, n):
	sh = Shard()
	with Coll(kind, n) as c:
		for ix, what in index_expressions(n):
			check_index(sh, c, ix, what)
	sh.sample(dict(family='index', kind=kind, n=n, last_index=describe(ix)))
	return sh


def t_long_collections(kind, tier):
	"""Collections whose length sits around the limits of the narrow integer types (127 / 128 / 129, 255 / 256 / 257, 32767 / 32768 / 32769,
	thorough 65535..65537): integer scalars and index arrays of every integer dtype able to hold the values, with negative and non-negative
	entries at both ends and in the middle; slices and masks at the same places.  Oracle: a Python list."""
	from gambit.sigs.base import SignatureArray, SignatureList, dump_signatures, load_signatures
	sh = Shard()
	ns = [127, 128, 129, 200, 255, 256, 257, 32767, 32768, 32769] + ([65535, 65536, 65537] if tier != 'quick' else [])
	with fixtures.workdir('c20L') as d:
		for n in ns:
			items = [np.array([i % 4000, 4001 + (i // 4000)], dtype='u2') if i % 3 else np.array([i % 4000], dtype='u2') for i in range(n)]
			if kind == 'array':
				obj = SignatureArray(items, kspec(), dtype=np.dtype('u2'))
			elif kind == 'list':
				obj = SignatureList(items, kspec(), dtype=np.dtype('u2'))
			else:
				p = os.path.join(d, f'L{n}.gs')
				dump_signatures(p, SignatureArray(items, kspec(), dtype=np.dtype('u2')))
				obj = load_signatures(p)
			c = Coll.__new__(Coll)
			c.kind, c.n, c.items, c.obj, c.wd = kind, n, items, obj, None
			vals = sorted({-n - 1, -n, -n + 1, -(n // 2) - 1, -129, -128, -127, -2, -1, 0, 1, 126, 127, 128, 129, n // 2, n - 2, n - 1, n})
			for dt in ('i1', 'i2', 'i4', 'i8', 'u1', 'u2', 'u4', 'u8'):
				info = np.iinfo(dt)
				fit = [v for v in vals if info.min <= v <= info.max]
				for v in fit:
					check_index(sh, c, np.dtype(dt).type(v), 'int')
					check_index(sh, c, np.array([v], dtype=dt), 'ints')
				for a, b in itertools.combinations(fit, 2):
					if (a < 0) != (b < 0) or abs(a - b) == 1:
						check_index(sh, c, np.array([b, a, b], dtype=dt), 'ints')
			for v in vals:
				check_index(sh, c, v, 'int')
				check_index(sh, c, [v], 'ints')
				check_index(sh, c, slice(v, None, 97), 'slice')
				check_index(sh, c, slice(None, v, -131), 'slice')
			m = np.zeros(n, dtype=bool)
			m[[x for x in (0, 126, 127, 128, n // 2, n - 1) if x < n]] = True
			check_index(sh, c, m, 'mask')
			check_index(sh, c, m[:-1], 'mask')
			sh.count('long_collection_lengths')
			if kind == 'hdf5':
				obj.close()
	sh.sample(dict(family='long-collections', kind=kind, lengths=ns))
	return sh


# ------------------------------------------------------------------------------------- (b) mutation histories

LABELS = ['a', 'b', 'c']


def label_arrays():
	return {'a': np.array([1, 2], dtype='u2'), 'b': np.array([], dtype='u2'), 'c': np.array([3, 500], dtype='u2')}


def events(maxlen):
	ev = []
	R = range(-4, 5)
	for i in R:
		for s in LABELS[:2]:
			ev.append(('setitem', i, s))
		ev.append(('delitem', i))
		ev.append(('pop', i))
		for s in LABELS[1:]:
			ev.append(('insert', i, s))
	for a, b in itertools.product([None, -2, 0, 1, 3], repeat=2):
		ev.append(('delslice', a, b, None))
		ev.append(('setslice', a, b, ('c',)))
		ev.append(('setslice', a, b, ()))
		ev.append(('setslice', a, b, ('a', 'b')))
	ev.append(('delslice', None, None, 2))
	ev.append(('setslice-step', None, None, 2, ('c',)))
	for s in LABELS:
		ev.append(('append', s))
	ev += [('extend', ('a', 'c')), ('extend', ()), ('iadd', ('b',)), ('pop',), ('reverse',), ('clear',), ('remove', 'a'), ('remove', 'c')]
	return ev


def apply_event(obj, ev, arrs):
	"""Apply to either a python list of labels->arrays (model gets labels) or the real SignatureList (gets arrays)."""
	conv = (lambda s: arrs[s]) if arrs is not None else (lambda s: s)
	op = ev[0]
	if op == 'setitem':
		obj[ev[1]] = conv(ev[2])
	elif op == 'delitem':
		del obj[ev[1]]
	elif op == 'pop':
		obj.pop(*ev[1:])
	elif op == 'insert':
		obj.insert(ev[1], conv(ev[2]))
	elif op == 'delslice':
		del obj[slice(ev[1], ev[2], ev[3])]
	elif op == 'setslice':
		obj[ev[1]:ev[2]] = [conv(s) for s in ev[3]]
	elif op == 'setslice-step':
		obj[slice(ev[1], ev[2], ev[3])] = [conv(s) for s in ev[4]]
	elif op == 'append':
		obj.append(conv(ev[1]))
	elif op == 'extend':
		obj.extend([conv(s) for s in ev[1]])
	elif op == 'iadd':
		obj += [conv(s) for s in ev[1]]
	elif op == 'reverse':
		obj.reverse()
	elif op == 'clear':
		obj.clear()
	elif op == 'remove':
		# MutableSequence.remove uses ==, ambiguous for arrays: remove by identity through index lookup in the model only
		if arrs is None:
			obj.remove(ev[1])
		else:
			target = arrs[ev[1]]
			for i in range(len(obj)):
				if obj[i] is target:
					del obj[i]
					break
			else:
				raise ValueError('not in list')
	else:
		raise AssertionError(op)
	return obj


def t_mutations(depth, maxlen):
	"""Breadth-first search: state = tuple of labels."""
	from gambit.sigs.base import SignatureList
	sh = Shard()
	arrs = label_arrays()
	ident = {id(v): k for k, v in arrs.items()}
	evs = events(maxlen)
	init = [(), ('a',), ('a', 'b'), ('c', 'a')]
	seen = {s: 0 for s in init}
	path = {s: (s, ()) for s in init}         # state -> (initial state, events leading to it): replayed on ONE object, see below
	frontier = list(init)
	d = 0
	while frontier and d < depth:
		nxt = []
		for state in frontier:
			for ev in evs:
				model = list(state)
				try:
					model = apply_event(model, ev, None)
					merr = None
				except Exception as e:
					merr = e
				source = [arrs[s] for s in state]            # the caller's own list, still referenced after construction
				source_before = list(source)
				real = SignatureList(source, kspec(), dtype=np.dtype('u2'))
				sibling = SignatureList(source, kspec(), dtype=np.dtype('u2'))     # a second collection built from the same list
				try:
					r2 = apply_event(real, ev, arrs)
					rerr = None
				except Exception as e:
					rerr = e
				if len(source) != len(source_before) or any(a is not b for a, b in zip(source, source_before)) or \
						tuple(ident.get(id(x)) for x in sibling) != state:
					sh.violation('mutation-leaked-into-source-list', dict(state=list(state), event=list(ev)), list(state),
					             dict(source=[ident.get(id(x)) for x in source], sibling=[ident.get(id(x)) for x in sibling]))
					continue
				sh.evals += 1
				sh.transitions += 1
				case = dict(state=list(state), event=list(ev))
				if merr is not None or rerr is not None:
					if merr is None or rerr is None or not (type(rerr) is type(merr) or isinstance(rerr, (IndexError, TypeError, ValueError)) and type(merr) in (IndexError, TypeError, ValueError) and type(rerr) is type(merr)):
						sh.violation('mutation-error-mismatch', case, repr(merr), repr(rerr))
						continue
					got_state = tuple(ident.get(id(x)) for x in real)
					if got_state != state:
						sh.violation('failed-mutation-changed-state', case, list(state), list(got_state))
					sh.count('mutations_that_raise')
					continue
				if r2 is not real and ev[0] != 'iadd':
					sh.violation('mutation-returned-new-object', case)
					continue
				real = r2
				got_state = tuple(ident.get(id(x)) for x in real)
				exp_state = tuple(model)
				ok = got_state == exp_state and len(real) == len(model) and real.kmerspec == kspec() and np.dtype(real.dtype) == np.dtype('u2')
				if ok:
					for i in range(-len(model), len(model)):
						if real[i] is not arrs[model[i]]:
							ok = False
					fresh = SignatureList([arrs[s] for s in model], kspec(), dtype=np.dtype('u2'))
					if not (real == fresh) or (real != fresh):
						ok = False
				if not ok:
					sh.violation('mutation-state-mismatch', case, list(exp_state), list(got_state))
					continue
				if exp_state != state:
					sh.nontrivial += 1
				if len(exp_state) <= maxlen and exp_state not in seen:
					seen[exp_state] = d + 1
					path[exp_state] = (path[state][0], path[state][1] + (ev,))
					nxt.append(exp_state)
		frontier = nxt
		d += 1
	# One LONG-LIVED object per transition: the state is reached by replaying its history on a single collection, with observations
	# (==, sizes(), len, iteration, slicing) after every step - anything the object remembers from earlier observations (a cache that a
	# mutation forgets to invalidate) makes it disagree with a freshly built collection of the same content.
	def observe(obj, labels):
		fresh = SignatureList([arrs[x] for x in labels], kspec(), dtype=np.dtype('u2'))
		ok = (obj == fresh) and not (obj != fresh) and (fresh == obj)
		ok = ok and list(obj.sizes()) == [len(arrs[x]) for x in labels] and len(obj) == len(labels)
		ok = ok and [ident.get(id(x)) for x in obj] == list(labels) and [ident.get(id(x)) for x in obj[:]] == list(labels)
		ok = ok and all(obj.sizeof(i) == len(arrs[x]) for i, x in enumerate(labels))
		return bool(ok)
	for state in list(seen):
		init_state, hist = path[state]
		for ev in evs:
			model = list(init_state)
			obj = SignatureList([arrs[x] for x in init_state], kspec(), dtype=np.dtype('u2'))
			good = observe(obj, model)
			try:
				for h in hist + (ev,):
					model = apply_event(model, h, None)
					obj = apply_event(obj, h, arrs)
					good = good and observe(obj, model)
			except Exception:
				continue          # raising events are judged in the first pass
			sh.evals += 1
			if not good:
				sh.violation('long-lived-object-disagrees-with-fresh-one', dict(state=list(init_state), event=[list(h) for h in hist + (ev,)]), list(model), [ident.get(id(x)) for x in obj])
			else:
				sh.count('long_lived_object_histories')

	# the other direction: mutating the caller's list afterwards must not change the collection
	for state in list(seen):
		for op in ('append', 'pop', 'reverse', 'clear', 'setitem'):
			src2 = [arrs[s] for s in state]
			real = SignatureList(src2, kspec(), dtype=np.dtype('u2'))
			try:
				if op == 'append': src2.append(arrs['c'])
				elif op == 'pop': src2.pop()
				elif op == 'reverse': src2.reverse()
				elif op == 'clear': src2.clear()
				else: src2[0] = arrs['c']
			except IndexError:
				continue
			sh.evals += 1
			if tuple(ident.get(id(x)) for x in real) != state:
				sh.violation('source-list-mutation-leaked-into-collection', dict(state=list(state), event=['source-' + op]), list(state), [ident.get(id(x)) for x in real])
			else:
				sh.count('aliasing_checks')
	# a slice of a list-backed collection is a NEW collection (as l[:] of a list is a new list): mutating either leaves the other alone
	slices = [slice(None), slice(0, None), slice(None, 10 ** 9), slice(None, None, 1), slice(-10 ** 9, None), slice(1, None), slice(None, -1), slice(None, None, -1), slice(None, None, 2)]
	for state in list(seen):
		for sl in slices:
			for who in ('original', 'slice'):
				for op in ('append', 'pop', 'setitem', 'insert', 'delitem'):
					real = SignatureList([arrs[s] for s in state], kspec(), dtype=np.dtype('u2'))
					try:
						part = real[sl]
					except Exception:
						continue
					exp_part = tuple(list(state)[sl])
					target, watched, wexp = (real, part, exp_part) if who == 'original' else (part, real, tuple(state))
					try:
						if op == 'append': target.append(arrs['c'])
						elif op == 'pop': target.pop()
						elif op == 'setitem': target[0] = arrs['c']
						elif op == 'insert': target.insert(0, arrs['c'])
						else: del target[0]
					except (IndexError, AttributeError):
						continue
					sh.evals += 1
					if tuple(ident.get(id(x)) for x in watched) != wexp:
						sh.violation('slice-shares-state-with-its-source', dict(state=list(state), event=['slice', repr(sl), 'mutate-' + who, op]), list(wexp), [ident.get(id(x)) for x in watched])
					else:
						sh.count('aliasing_checks')
	sh.states = len(seen)
	sh.traces = sh.transitions      # every transition was executed on the real class
	sh.extra = dict(bfs_depth=d, frontier_left=len(frontier))
	sh.sample(dict(family='mutations', example_state=list(max(seen, key=len)), example_event=list(evs[7]), events=len(evs)))
	return sh


# ------------------------------------------------------------------------------------- (c) equality

def t_equality():
	from gambit.sigs.base import SignatureArray, SignatureList, AnnotatedSignatures, dump_signatures, load_signatures
	sh = Shard()
	specs = [None, fixtures.kspec(6, 'AT'), fixtures.kspec(6, 'AC'), fixtures.kspec(7, 'AT')]
	conts = [
		('empty', []), ('one-empty-sig', [[]]), ('A', [[1, 2]]), ('A-u4', [[1, 2]]), ('B', [[1, 3]]), ('A,B', [[1, 2], [1, 3]]), ('B,A', [[1, 3], [1, 2]]),
		('A,empty', [[1, 2], []]), ('A,A', [[1, 2], [1, 2]]), ('prefix', [[1]]),
		# same number of signatures and the same concatenated values, different boundaries
		('split-12|3', [[1, 2], [3]]), ('split-1|23', [[1], [2, 3]]), ('split-|123', [[], [1, 2, 3]]), ('split-123|', [[1, 2, 3], []]),
		('three-a', [[1, 5, 9], [2, 7], [], [3, 4]]), ('three-b', [[1, 5], [9], [2, 7], [3, 4]]),
	]
	objs = []
	with fixtures.workdir('c20eq') as d:
		for si, ks in enumerate(specs):
			for name, sigs in conts:
				dt = np.dtype('u4') if name.endswith('u4') else np.dtype('u2')
				arrs = [np.array(s, dtype=dt) for s in sigs]
				key = (si, name.replace('-u4', ''))
				if sigs or ks is not None:
					objs.append(('array', key, SignatureArray(arrs, ks, dtype=dt)))
					objs.append(('list', key, SignatureList(arrs, ks, dtype=dt)))
					objs.append(('annotated', key, AnnotatedSignatures(SignatureList(arrs, ks, dtype=dt))))
				if ks is not None and sigs:
					p = os.path.join(d, f'{si}-{name}.gs')
					dump_signatures(p, SignatureArray(arrs, ks, dtype=dt))
					objs.append(('hdf5', key, load_signatures(p)))
		for (ka, keya, a), (kb, keyb, b) in itertools.product(objs, repeat=2):
			sh.evals += 1
			exp = keya == keyb
			try:
				got = a == b
				ne = a != b
			except Exception as e:
				sh.violation('equality-raises', dict(a=[ka, list(keya)], b=[kb, list(keyb)]), exp, repr(e))
				continue
			if bool(got) is not exp or bool(ne) is exp:
				sh.violation('equality', dict(a=[ka, list(keya)], b=[kb, list(keyb)]), exp, repr(got))
			if exp != (keya[0] == keyb[0]) or exp != (keya[1] == keyb[1]):
				sh.nontrivial += 1
			if exp and ka != kb:
				sh.count('equal_across_container_kinds')
		for kind, key, a in objs:
			for other in (None, 0, 'x', [np.array([1, 2], dtype='u2')], (1, 2), object()):
				sh.evals += 1
				try:
					r = a == other
				except Exception as e:
					sh.violation('equality-with-non-collection-raises', dict(a=[kind, list(key)], other=repr(other)), False, repr(e))
					continue
				if not isinstance(r, np.ndarray) and bool(r) is not False:
					sh.violation('equality-with-non-collection', dict(a=[kind, list(key)], other=repr(other)), False, repr(r))
		for kind, key, a in objs:
			if kind == 'hdf5':
				a.close()
	sh.sample(dict(family='equality', objects=len(objs), example=dict(a=['array', [1, 'A,B']], b=['hdf5', [1, 'A,B']], equal=True)))
	return sh


def finalize(agg, tier):
	agg.require('must_raise', 100)
	agg.require('reordering_or_repeating_selection', 100)
	agg.require('mutations_that_raise', 10)
	agg.require('equal_across_container_kinds', 10)
	agg.require('aliasing_checks', 50)
	agg.require('long_collection_lengths', 20)
	agg.require('long_lived_object_histories', 1000)
	ex = [e for e in agg.extra if 'bfs_depth' in e]
	agg.coverage_extra['bfs_depth'] = ex[0]['bfs_depth']
	agg.coverage_extra['bfs_frontier_left_at_depth_bound'] = ex[0]['frontier_left']


def replay(case, kind=None):
	sh = Shard()
	if 'index' in case and case['n'] > 8:
		vs = t_long_collections(case['kind'], 'thorough').violations
		return [v for v in vs if v['case'] == case][:1] or [v for v in vs if v['case']['n'] == case['n']][:1]
	if 'index' in case:
		with Coll(case['kind'], case['n']) as c:
			if 'earlier_index' in case:
				# the run that found the case had made many selections from this object before (anything the object keeps between selections,
				# e.g. a scratch buffer, was already at its largest): one large selection first
				try:
					c.obj[list(range(case['n'])) * 3]
				except Exception:
					pass
				check_index(sh, c, undescribe(case['earlier_index']), case.get('earlier_what', 'ints'))      # the earlier selection whose result is watched
			check_index(sh, c, undescribe(case['index']), case['what'])
	elif 'state' in case and kind == 'long-lived-object-disagrees-with-fresh-one':
		vs = t_mutations(3, 4).violations
		return [v for v in vs if v['kind'] == kind][:1]
	elif 'state' in case and kind in ('mutation-leaked-into-source-list', 'source-list-mutation-leaked-into-collection', 'slice-shares-state-with-its-source'):
		vs = t_mutations(3, 4).violations
		return [v for v in vs if v['kind'] == kind][:1]
	elif 'state' in case:
		# re-run the single transition
		from gambit.sigs.base import SignatureList
		arrs = label_arrays()
		ident = {id(v): k for k, v in arrs.items()}
		ev = tuple(tuple(x) if isinstance(x, list) else x for x in case['event'])
		model = list(case['state'])
		try:
			apply_event(model, ev, None); merr = None
		except Exception as e:
			merr = e
		real = SignatureList([arrs[s] for s in case['state']], kspec(), dtype=np.dtype('u2'))
		try:
			real = apply_event(real, ev, arrs); rerr = None
		except Exception as e:
			rerr = e
		if (merr is None) != (rerr is None) or (merr is None and tuple(ident.get(id(x)) for x in real) != tuple(model)) or (merr is not None and type(merr) is not type(rerr)):
			sh.violation(kind or 'mutation', case, repr(merr) if merr else model, repr(rerr) if rerr else [ident.get(id(x)) for x in real])
	else:
		return [v for v in t_equality().violations if v['case'] == case]
	return sh.violations


MANIFEST = dict(
	engine='E-bfs',
	technique='explicit-state BFS over list-mutation histories on the real class + bounded exhaustive enumeration of index expressions vs. Python list',
	text='Every index expression over small ranges (ints of 6 types, 1569 slices, all index sequences <=3 in 9 container kinds, all masks, ill-typed) is '
	     'applied to real in-memory, list-backed and file-backed collections of length 0..4 (5) and compared with list semantics, including that the '
	     'caller\'s index container is byte-identical afterwards; all SignatureList mutation histories are explored breadth-first (state = element tuple, '
	     'every transition run on a fresh real object); all equality pairs are checked.',
	note='length/sequence bounds; exception classes compared by family; HDF5 through real files in /dev/shm.',
)
