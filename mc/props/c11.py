"""C11 - every export format is a faithful image of the query results.

Result sets are produced by REAL queries on a persisted synthetic database whose taxon names, genome descriptions and query labels are drawn from a
string alphabet (plain, comma, double quote, newline, CRLF, non-ASCII, empty, leading/trailing blank, '=1+1', bare carriage return): every assignment of
the alphabet to the three string roles (10^3), strict in {no, yes}; the 9-query batch covers: no prediction, reportable prediction, prediction on an
unreportable taxon with a reportable ancestor / with none, strict conflict with consensus + warning, strict failure with error, input with and
without a source file; float32 distances with long decimal expansions.
Oracle: CSV parse-back (csv.reader) vs the result object through the documented column list (written out here independently); JSON parse + agreement
with the object and the CSV row; archive: Reader.read(Writer.export) == original, plus float.hex of every distance, warnings, error, params.
"""
import csv
import io
import itertools
import json
import os
from mc.core import Shard
from mc import fixtures, clifix
import numpy as np

ID = 'C11'
LEVEL = 'exploration'
RULE = ('every assignment of the 10-string alphabet to (taxon names, genome descriptions, query labels) x strict x 3 formats on a 7-item result set; one case = one '
        'export of one result set, compared item by item; non-trivial = the assignment contains at least one string that needs quoting / escaping / is non-ASCII')
ASSUMPTIONS = [
	'exporter objects are reused across the exports of a task (databases with equal primary keys but different texts) and, in a second pass, created afresh',
	'one taxonomy shape and a 9-query batch; strings drawn from a 10-element alphabet',
	'CSV read back with csv.reader over newline-preserving text (newline=""), as the csv module documents',
]

ALPHABET = ['plain', 'a,b', 'say "x"', 'line\nbreak', 'crlf\r\nx', 'ünï-中 e\u0301 \u212b \ufb01', '', ' lead trail ',      # composed, DEcomposed (e + combining acute), compatibility characters: text is passed through as it is
             '=1+1', 'bare\rcr']
FINDING_CR = 'csv-bare-carriage-return'

# documented CSV columns (docs/source/cli.rst), written out independently of the exporter's table
COLUMNS = ['query', 'predicted.name', 'predicted.rank', 'predicted.ncbi_id', 'predicted.threshold', 'closest.distance', 'closest.description',
           'next.name', 'next.rank', 'next.ncbi_id', 'next.threshold']

DEEP = 40
QSEGS = [[0, 1, 2], [9], [10, 11], [0, 1, 2, 8, 9], [0, 1, 2, 4, 5, 6], [8, 9], [0, 1], [8, 9, 10], [8, 10]]        # the last two: next taxon = the unreportable species


def plan(tier, seed):
	tasks = [('t_files_child', dict(locale=loc)) for loc in ('default', 'ascii')]
	for ti in range(len(ALPHABET)):
		for half in range(2):
			tasks.append(('t_exports', dict(ti=ti, half=half, tier=tier)))
	return tasks


def taxa_for(s, variant):
	name = lambda i: s if not s else f'{s}{i}'
	taxa = [
		dict(name=name(0), parent=None, thr=0.95, rank='genus', ncbi_id=100),
		dict(name=name(1), parent=0, thr=0.6, rank='species', ncbi_id=101),
		dict(name=name(2), parent=0, thr=0.6, rank=None, ncbi_id=102),
		dict(name=name(3), parent=None, thr=0.9, rank='genus', ncbi_id=200, report=(variant != 1)),
		dict(name=name(4), parent=3, thr=0.5, rank='species', ncbi_id=None, report=False),
	]
	if variant == 2:
		# a lineage of 43 levels: 40 unranked clades between the genus and species 1 (NCBI lineages are this deep)
		for j in range(DEEP):
			taxa.append(dict(name=f'clade{j} {s}', parent=0 if j == 0 else 4 + j, thr=0.8 if j == 7 else None, rank=None, ncbi_id=None, report=(j % 5 != 0)))
		taxa[1]['parent'] = 4 + DEEP
	return taxa


def walk_up(t):
	"""Names from the taxon to its root by following .parent (independent of Taxon.ancestors)."""
	out = []
	while t is not None:
		out.append(t.name)
		t = t.parent
	return out


def has_bare_cr(s):
	return any(c == '\r' and s[i + 1:i + 2] != '\n' for i, c in enumerate(s))


def cell(v):
	"""What a CSV cell for value v must parse back to."""
	return '' if v is None else str(v)


_EXPORTERS = {}


def exporter(kind):
	"""One exporter instance per kind and task, REUSED for every export of the task: the databases of a task share their primary keys but differ
	in names / descriptions, so anything an exporter remembers from an earlier export (a per-instance cache) shows as stale output."""
	from gambit.results import CSVResultsExporter, JSONResultsExporter, ResultsArchiveWriter
	if kind not in _EXPORTERS:
		if kind == 'csv' and 'other-csv' not in _EXPORTERS:
			# somebody else in the process made exporters with OTHER format options before (tab-separated, other quoting, a dialect) and, for
			# JSON, other keyword options: the default exporters made afterwards must still write the default format
			import csv as _csv
			import io as _io
			_EXPORTERS['other-csv'] = [CSVResultsExporter(delimiter='\t', quoting=_csv.QUOTE_ALL), CSVResultsExporter(dialect='excel-tab'), CSVResultsExporter(delimiter=';', quotechar="'", lineterminator='\r\n')]
			try:
				_EXPORTERS['other-json'] = [JSONResultsExporter(pretty=True)]
			except TypeError:
				_EXPORTERS['other-json'] = []
		_EXPORTERS[kind] = {'csv': CSVResultsExporter, 'json': JSONResultsExporter, 'archive': ResultsArchiveWriter}[kind]()
	return _EXPORTERS[kind]


def check_results(sh, res, session, case, strings):
	from gambit.results import CSVResultsExporter, JSONResultsExporter, ResultsArchiveWriter, ResultsArchiveReader
	n = len(res.items)
	needs_cr = any(has_bare_cr(s) for s in strings)
	# ---- CSV
	buf = io.StringIO(newline='')
	exporter('csv').export(buf, res)
	text = buf.getvalue()
	sh.evals += 1
	rows = list(csv.reader(io.StringIO(text, newline='')))
	ok_csv = True
	if len(rows) != n + 1 or rows[0] != COLUMNS or any(len(r) != len(COLUMNS) for r in rows):
		fk = FINDING_CR if needs_cr and _only_cr_damage(text, res) else None
		sh.violation('csv-row-structure', case, dict(rows=n + 1, columns=len(COLUMNS)), dict(rows=len(rows), lens=[len(r) for r in rows][:12]), finding_key=fk)
		ok_csv = False
	else:
		for i, (item, row) in enumerate(zip(res.items, rows[1:])):
			rt, cm, nt = item.report_taxon, item.classifier_result.closest_match, item.classifier_result.next_taxon
			exp = [item.input.label] + ([rt.name, rt.rank, rt.ncbi_id, rt.distance_threshold] if rt is not None else [None] * 4) + \
				[None, cm.genome.description] + ([nt.name, nt.rank, nt.ncbi_id, nt.distance_threshold] if nt is not None else [None] * 4)
			expc = [cell(v) for v in exp]
			got = list(row)
			dist_ok = got[5] != '' and np.float32(float(got[5])) == np.float32(cm.distance)
			thr_ok = all((got[j] == '' and exp[j] is None) or (exp[j] is not None and float(got[j]) == float(exp[j])) for j in (4, 10))
			got[5] = expc[5] = ''
			got[4] = expc[4] = got[10] = expc[10] = ''
			if got != expc or not dist_ok or not thr_ok:
				fk = FINDING_CR if needs_cr and [g.replace('\r', '').replace('\n', '') for g in got] == [e.replace('\r', '').replace('\n', '') for e in expc] and dist_ok and thr_ok else None
				sh.violation('csv-cell-values', dict(case, item=i), expc, got, finding_key=fk)
				ok_csv = False
				break
	# ---- JSON
	buf = io.StringIO()
	exporter('json').export(buf, res)
	sh.evals += 1
	try:
		js = json.loads(buf.getvalue())
	except Exception as e:
		sh.violation('json-invalid', case, 'valid JSON', repr(e))
		js = None
	if js is not None:
		if len(js['items']) != n:
			sh.violation('json-item-count', case, n, len(js['items']))
		else:
			for i, (item, ji) in enumerate(zip(res.items, js['items'])):
				rt, nt = item.report_taxon, item.classifier_result.next_taxon
				tx = lambda t, j: (t is None and j is None) or (t is not None and j is not None and j['name'] == t.name and j['key'] == t.key and j['rank'] == t.rank and
				                                                j['ncbi_id'] == t.ncbi_id and j['distance_threshold'] == t.distance_threshold)
				good = ji['query']['name'] == item.input.label and tx(rt, ji['predicted_taxon']) and tx(nt, ji['next_taxon'])
				good = good and (ji['query']['path'] is None) == (item.input.file is None)
				cg = ji['closest_genomes']
				good = good and len(cg) == len(item.closest_genomes)
				if good:
					for m, jm in zip(item.closest_genomes, cg):
						if jm['genome']['key'] != m.genome.key or jm['genome']['description'] != m.genome.description or \
								np.float32(jm['distance']) != np.float32(m.distance) or float(jm['distance']) != float(np.float32(m.distance)) or \
								not tx(m.matched_taxon, jm['matched_taxon']) or [t['name'] for t in jm['genome']['taxonomy']] != walk_up(m.genome.taxon):
							good = False
				if not good:
					sh.violation('json-item-differs-from-result', dict(case, item=i), None, json.dumps(ji)[:600])
					break
				if ok_csv:
					r = rows[i + 1]
					if r[0] != ji['query']['name'] or r[1] != cell(None if ji['predicted_taxon'] is None else ji['predicted_taxon']['name']) or \
							r[7] != cell(None if ji['next_taxon'] is None else ji['next_taxon']['name']):
						sh.violation('csv-json-disagree', dict(case, item=i), r, json.dumps(ji)[:400])
						break
	# ---- archive
	buf = io.StringIO()
	exporter('archive').export(buf, res)
	sh.evals += 1
	try:
		back = ResultsArchiveReader(session).read(io.StringIO(buf.getvalue()))
	except Exception as e:
		sh.violation('archive-unreadable', case, 'reads back', repr(e))
		return
	if not (back == res):
		sh.violation('archive-roundtrip-not-equal', case)
		return
	for i, (a, b) in enumerate(zip(res.items, back.items)):
		ca, cb = a.classifier_result, b.classifier_result
		pairs = [(ca.closest_match, cb.closest_match), (ca.primary_match, cb.primary_match)] + list(zip(a.closest_genomes, b.closest_genomes))
		for x, y in pairs:
			if (x is None) != (y is None) or (x is not None and (float(x.distance).hex() != float(y.distance).hex() or x.genome is not y.genome and x.genome.key != y.genome.key or
			                                                      (x.matched_taxon is None) != (y.matched_taxon is None))):
				sh.violation('archive-distance-or-match-differs', dict(case, item=i), None if x is None else float(x.distance).hex(), None if y is None else float(y.distance).hex())
				return
		if ca.warnings != cb.warnings or ca.error != cb.error or ca.success != cb.success or a.input.label != b.input.label or \
				(a.input.file is None) != (b.input.file is None) or (a.input.file is not None and str(a.input.file.path) != str(b.input.file.path)):
			sh.violation('archive-warnings-error-input-differ', dict(case, item=i), [ca.warnings, ca.error], [cb.warnings, cb.error])
			return
	if back.params != res.params or back.timestamp != res.timestamp or back.signaturesmeta != res.signaturesmeta or back.gambit_version != res.gambit_version or back.extra != res.extra:
		sh.violation('archive-params-or-meta-differ', case, repr(res.params), repr(back.params))


def _only_cr_damage(text, res):
	"""True when removing every CR and LF from the exported text and from a correctly quoted rendering gives the same character stream,
	i.e. the only thing wrong with the CSV is that a field holding a bare CR was not quoted."""
	good = io.StringIO(newline='')
	w = csv.writer(good, lineterminator='\n', quoting=csv.QUOTE_ALL)
	from gambit.results import CSVResultsExporter
	e = CSVResultsExporter()
	w.writerow(e.get_header())
	for item in res.items:
		w.writerow(['' if v is None else v for v in e.get_row(item)])
	strip = lambda s: s.replace('\r', '').replace('\n', '').replace('"', '')
	return strip(good.getvalue()) == strip(text)


def t_files_child(locale):
	from mc import child
	env = {} if locale == 'default' else {'LC_ALL': 'C', 'LANG': 'C', 'PYTHONUTF8': '0', 'PYTHONCOERCECLOCALE': '0'}
	return child.run('mc.props.c11', 't_files', dict(locale=locale), env=env)


def t_files(locale):
	"""Exports written to real FILES by path (the exporter opens them itself, with the interpreter's default text encoding) in a child interpreter
	under the default locale and under an ASCII-only one (LC_ALL=C, UTF-8 mode off): JSON and archive must be readable back whatever the
	names contain - incl. a label with a lone surrogate, as a file name that is not valid UTF-8 yields.  (CSV by path is judged under the
	default locale only and without the surrogate label: its text is written as is.)  Also every timestamp shape for the archive."""
	import datetime
	import locale as _locale
	from gambit.query import query, QueryParams, QueryInput
	from gambit.results import CSVResultsExporter, JSONResultsExporter, ResultsArchiveWriter, ResultsArchiveReader
	sh = Shard()
	enc = _locale.getpreferredencoding(False)
	with fixtures.workdir('c11f') as d:
		db = build_db(os.path.join(d, 'db'), 'ünï-中', 'say "x", é', 0)
		sigs = [clifix.lib_signature('P0', s) for s in QSEGS]
		for lab in ('plain', 'ünï-中', 'sur\udcffrogate', 'a,b\n"q"'):
			labels = [f'{lab}{i}' for i in range(len(QSEGS))]
			res = query(db, sigs, QueryParams(report_closest=2), inputs=[QueryInput(l) for l in labels])
			case = dict(taxon_string='ünï-中', genome_string='say "x", é', label_string=lab, strict=False, locale=locale, encoding=enc)
			for kind, exp_cls in (('json', JSONResultsExporter), ('archive', ResultsArchiveWriter)):
				path = os.path.join(d, f'out.{kind}')
				sh.evals += 1
				try:
					exp_cls().export(path, res)
					with open(path, 'rb') as f:
						raw = f.read()
					js = json.loads(raw.decode(enc if enc.lower().replace('-', '') != 'utf8' else 'utf-8', errors='surrogatepass'))
				except Exception as e:
					sh.violation('file-export-failed', dict(case, format=kind), 'a readable file', repr(e)[:300])
					continue
				names = [it['query']['name'] if kind == 'json' else it['input']['label'] for it in js['items']]
				if names != labels:
					sh.violation('file-export-labels-differ', dict(case, format=kind), labels, names)
					continue
				if kind == 'archive':
					try:
						back = ResultsArchiveReader(db.session).read(path)
					except Exception as e:
						sh.violation('archive-unreadable', dict(case, format=kind), 'reads back', repr(e)[:300])
						continue
					if not (back == res):
						sh.violation('archive-roundtrip-not-equal', dict(case, format=kind))
						continue
				sh.nontrivial += 1
				sh.count('file_exports')
			if locale == 'default' and 'udcff' not in repr(lab):
				path = os.path.join(d, 'out.csv')
				sh.evals += 1
				try:
					CSVResultsExporter().export(path, res)
					with open(path, newline='') as f:
						rows = list(csv.reader(f))
					if [r[0] for r in rows[1:]] != labels:
						sh.violation('file-export-labels-differ', dict(case, format='csv'), labels, [r[0] for r in rows[1:]])
				except Exception as e:
					sh.violation('file-export-failed', dict(case, format='csv'), 'a readable file', repr(e)[:300])
		# timestamps of every shape through the archive
		res = query(db, sigs, QueryParams(), inputs=[QueryInput(f'q{i}') for i in range(len(QSEGS))])
		stamps = [datetime.datetime(2024, 1, 2, 3, 4, 5), datetime.datetime(2024, 1, 2, 3, 4, 5, 1), datetime.datetime(2024, 12, 31, 23, 59, 59, 999999),
		          datetime.datetime(2024, 1, 2), datetime.datetime(1, 1, 1), datetime.datetime(2024, 1, 2, 3, 4, 5, tzinfo=datetime.timezone.utc),
		          datetime.datetime(2024, 1, 2, 3, 4, 5, 250000, tzinfo=datetime.timezone(datetime.timedelta(hours=-7, minutes=-30)))]
		for ts in stamps:
			res.timestamp = ts
			sh.evals += 1
			buf = io.StringIO()
			ResultsArchiveWriter().export(buf, res)
			try:
				back = ResultsArchiveReader(db.session).read(io.StringIO(buf.getvalue()))
			except Exception as e:
				sh.violation('archive-unreadable', dict(taxon_string='-', genome_string='-', label_string='-', strict=False, timestamp=ts.isoformat()), 'reads back', repr(e)[:300])
				continue
			if back.timestamp != ts or not (back == res):
				sh.violation('archive-params-or-meta-differ', dict(taxon_string='-', genome_string='-', label_string='-', strict=False, timestamp=ts.isoformat()), ts.isoformat(), repr(back.timestamp))
			else:
				sh.count('timestamp_shapes')
		db.signatures.close()
		db.session.close()
	sh.sample(dict(family='files', locale=locale, preferred_encoding=enc))
	return sh


def t_exports(ti, half, tier):
	_EXPORTERS.clear()
	from gambit.db import ReferenceDatabase
	from gambit.query import query, QueryParams, QueryInput
	from gambit.seq import SequenceFile
	sh = Shard()
	with fixtures.workdir('c11') as d:
		gis = range(len(ALPHABET))
		for gi in gis:
			if gi % 2 != half:
				continue
			# both text roles change from one database of the task to the next (all 100 pairs are covered over the tasks)
			s_tax = ALPHABET[(ti + gi) % len(ALPHABET)]
			s_gen = ALPHABET[gi]
			variant = (ti + gi) % 3
			db = build_db(os.path.join(d, f'db{gi}'), s_tax, s_gen, variant)
			sigs = [clifix.lib_signature('P0', s) for s in QSEGS]
			for li, s_lab in enumerate(ALPHABET):
				labels = [s_lab if not s_lab else f'{s_lab}{i}' for i in range(len(QSEGS))]
				inputs = [QueryInput(l, SequenceFile(f'/data/in put/{i}.fa', 'fasta', 'gzip' if i % 2 else None)) if i % 3 else QueryInput(l) for i, l in enumerate(labels)]
				for strict in (False, True):
					res = query(db, sigs, QueryParams(classify_strict=strict, report_closest=3), inputs=inputs)
					case = dict(taxon_string=s_tax, genome_string=s_gen, label_string=s_lab, strict=strict, task=[ti, half])
					before = sh.nviol
					check_results(sh, res, db.session, case, (s_tax, s_gen, s_lab))
					if sh.nviol == before:
						if any(x in s for s in (s_tax, s_gen, s_lab) for x in ',"\n\r') or any(ord(c) > 127 for s in (s_tax, s_gen, s_lab) for c in s):
							sh.nontrivial += 1
						kinds = result_kinds(res)
						for k in kinds:
							sh.count('kind_' + k)
						sh.outcome([(ti + gi) % len(ALPHABET), gi, li, strict])
			db.signatures.close()
			db.session.close()
	sh.sample(dict(taxon_string=s_tax, genome_string=s_gen, label_string=s_lab, strict=strict, kinds=sorted(result_kinds(res))))
	return sh


def result_kinds(res):
	k = set()
	for it in res.items:
		cr = it.classifier_result
		if cr.predicted_taxon is None and cr.success:
			k.add('no_prediction')
		if cr.predicted_taxon is not None and it.report_taxon is cr.predicted_taxon:
			k.add('reportable_prediction')
		if cr.predicted_taxon is not None and it.report_taxon is not None and it.report_taxon is not cr.predicted_taxon:
			k.add('report_taxon_above_prediction')
		if cr.predicted_taxon is not None and it.report_taxon is None:
			k.add('prediction_with_no_reportable_taxon')
		if not cr.success:
			k.add('strict_failure_with_error')
		if cr.warnings:
			k.add('with_warnings')
		if it.input.file is None:
			k.add('input_without_file')
		if cr.next_taxon is None:
			k.add('no_next_taxon')
		elif not cr.next_taxon.report:
			k.add('unreportable_next_taxon')
	return k


def build_db(dbdir, s_tax, s_gen, variant):
	from gambit.db import ReferenceDatabase
	from gambit.sigs.base import SignatureArray, AnnotatedSignatures, SignaturesMeta, dump_signatures
	os.makedirs(dbdir)
	genomes = [dict(key=f'verif/ref{i}', description=(s_gen if not s_gen else f'{s_gen}{i}'), taxon=clifix.REF_TAXA[i]) for i in range(len(clifix.REFS))]
	fixtures.write_genome_db(os.path.join(dbdir, 'ref.gdb'), taxa_for(s_tax, variant), genomes, gset_kw=dict(description=s_gen, name=s_tax or 'n'))
	ks = clifix.kspec_of('P0')
	sigs = [clifix.lib_signature('P0', s) for s in clifix.REFS]
	dump_signatures(os.path.join(dbdir, 'ref.gs'), AnnotatedSignatures(SignatureArray(sigs, ks, dtype=ks.index_dtype), [g['key'] for g in genomes],
	                SignaturesMeta(id='verif/sigs', name=s_tax, version='1', id_attr='key', description=s_gen, extra=dict(note=s_tax))))
	return ReferenceDatabase.load_from_dir(dbdir)


def finalize(agg, tier):
	for k in ('no_prediction', 'reportable_prediction', 'report_taxon_above_prediction', 'prediction_with_no_reportable_taxon', 'strict_failure_with_error',
	          'with_warnings', 'input_without_file', 'no_next_taxon', 'unreportable_next_taxon'):
		agg.require('kind_' + k, 10)
	agg.require('file_exports', 8)
	agg.require('timestamp_shapes', 8)


def replay(case, kind=None):
	if 'locale' in case or 'timestamp' in case:
		vs = []
		for loc in (['default', 'ascii'] if 'timestamp' in case else [case['locale']]):
			vs += t_files_child(loc).violations
		return [v for v in vs if v['kind'] == kind][:1]
	from gambit.query import query, QueryParams, QueryInput
	from gambit.seq import SequenceFile
	sh = Shard()
	s_tax, s_gen, s_lab = case['taxon_string'], case['genome_string'], case['label_string']
	variant = (ALPHABET.index(s_tax) + ALPHABET.index(s_gen)) % 3
	with fixtures.workdir('c11r') as d:
		db = build_db(os.path.join(d, 'db'), s_tax, s_gen, variant)
		sigs = [clifix.lib_signature('P0', s) for s in QSEGS]
		labels = [s_lab if not s_lab else f'{s_lab}{i}' for i in range(len(QSEGS))]
		inputs = [QueryInput(l, SequenceFile(f'/data/in put/{i}.fa', 'fasta', 'gzip' if i % 2 else None)) if i % 3 else QueryInput(l) for i, l in enumerate(labels)]
		res = query(db, sigs, QueryParams(classify_strict=case['strict'], report_closest=3), inputs=inputs)
		_EXPORTERS.clear()
		check_results(sh, res, db.session, dict(case), (s_tax, s_gen, s_lab))
		db.signatures.close()
		db.session.close()
	if not sh.violations and 'task' in case:
		# the failure may depend on what the (reused) exporters saw before: replay the whole task history up to this case
		vs = t_exports(case['task'][0], case['task'][1], 'quick').violations
		return [v for v in vs if {k: v['case'].get(k) for k in ('taxon_string', 'genome_string', 'label_string', 'strict')} ==
		        {k: case.get(k) for k in ('taxon_string', 'genome_string', 'label_string', 'strict')}][:1] or vs[:1]
	return sh.violations


MANIFEST = dict(
	engine='E-enum',
	technique='exhaustive enumeration of string-alphabet assignments to the three text roles x strictness, real queries on a real database, parse-back oracles for the 3 export formats',
	text='All 10^3 assignments of a 10-string alphabet (comma, quote, newline, CRLF, non-ASCII, empty, blanks, formula-like, bare CR) to taxon names, genome '
	     'descriptions and query labels, strict and non-strict, on a 9-query batch covering every result kind, are exported by the real CSV / JSON / archive '
	     'writers and read back: CSV by csv.reader against the documented columns, JSON against the object and the CSV row, archive by the real reader with '
	     'equality plus bit-exact distances, warnings, errors and parameters.',
	note='one taxonomy shape; known finding: a bare carriage return inside a field is not quoted by the CSV writer (pinned to exactly that input).',
)
