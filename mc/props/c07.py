"""C07 - k-mer/index conversion is the base-4 bijection, consistent with reverse complement.

Alphabet x bound: all 4^k k-mers for k<=8 (thorough 10); all 8^k case patterns k<=4; all byte strings of
length <=2 over 0..255 (+ length-3 slice selected by the seed: one fixed first byte); for every k<=32 the boundary
k-mers; k=33 rejected.  Oracle: mc.refmodel (positional value, complement table).
"""
import itertools
from mc.core import Shard
from mc import refmodel as R

ID = 'C07'
LEVEL = 'exploration'
RULE = ('every k-mer over ACGT for k<=K, every case pattern k<=4, every byte string of length<=2 (plus all length-3 strings '
        'with a seed-chosen first byte), boundary k-mers for every k<=33, through kmer_to_index / kmer_to_index_rc / '
        'index_to_kmer / revcomp (native and Python wrappers, bytes/bytearray/str/Seq); a case is non-trivial when it is a '
        'distinct input string of length >= 1')
ASSUMPTIONS = [
	'k-mers longer than 10 are covered only at the boundary patterns (all-A, all-T, single T / single invalid byte at each position, seeded de Bruijn-like strings), not exhaustively',
]


def plan(tier, seed):
	K = 8 if tier == 'quick' else 10
	tasks = [('t_kmers', dict(k=k, first=None)) for k in range(0, min(K, 7) + 1)]
	for k in range(8, K + 1):
		tasks += [('t_kmers', dict(k=k, first=a)) for a in range(4)]
	tasks += [('t_case', dict(k=k)) for k in range(1, 5)]
	tasks += [('t_bytes', dict(lo=lo, hi=lo + 32)) for lo in range(0, 256, 32)]
	b3 = [seed % 256] if tier == 'quick' else sorted({seed % 256, 65, 97, 78, 0, 255, 84, 116})
	tasks += [('t_bytes3', dict(first=b)) for b in b3]
	tasks += [('t_boundary', dict()), ('t_long', dict(seed=seed))]
	return tasks


import numpy as np

K_TYPES = ['int', 'i8', 'i4', 'u1', 'i1', 'u8']
I_TYPES = ['int', 'u8', 'i8', 'u4']


def _enc(fn, arg):
	try:
		return int(fn(arg))
	except ValueError:
		return None


def _check_kmer(sh, kmer: bytes, fns, full=True):
	"""Compare every encoder on one byte string with the model."""
	import gambit.kmers as gk
	from gambit._cython import kmers as ck
	exp = R.ref_index(kmer)
	exp_rc = R.ref_index(R.ref_revcomp(kmer))
	got = _enc(ck.kmer_to_index, kmer)
	got_rc = _enc(ck.kmer_to_index_rc, kmer)
	sh.evals += 2
	if got != exp:
		sh.violation('kmer_to_index', dict(kmer=kmer), exp, got)
	if got_rc != exp_rc:
		sh.violation('kmer_to_index_rc', dict(kmer=kmer), exp_rc, got_rc)
	rc = ck.revcomp(kmer)
	sh.evals += 1
	# the names users import: gambit.seq.revcomp / gambit.kmers.revcomp must be the same function of the bytes
	import gambit.seq as gs
	for name, fn in (('gambit.seq.revcomp', gs.revcomp), ('gambit.kmers.revcomp', gk.revcomp)):
		r2 = fn(kmer)
		sh.evals += 1
		if r2 != R.ref_revcomp(kmer):
			sh.violation('revcomp-public-name', dict(seq=kmer, name=name), R.ref_revcomp(kmer), r2)
			break
	if rc != R.ref_revcomp(kmer):
		sh.violation('revcomp', dict(seq=kmer), R.ref_revcomp(kmer), rc)
	elif ck.revcomp(rc) != kmer:
		sh.violation('revcomp-involution', dict(seq=kmer), kmer, ck.revcomp(rc))
	if exp is not None:
		back = ck.index_to_kmer(exp, len(kmer))
		sh.evals += 1
		if back != R.ref_upper(kmer):
			sh.violation('index_to_kmer', dict(index=exp, k=len(kmer)), R.ref_upper(kmer), back)
		if full:
			# the public name, with k and the index as plain and as NumPy integers (KmerSpec.k of a loaded signature file is a NumPy integer)
			for kt in K_TYPES:
				for it in I_TYPES:
					if it != 'int' and exp > np.iinfo(it).max:
						continue
					sh.evals += 1
					try:
						b2 = gk.index_to_kmer(exp if it == 'int' else np.dtype(it).type(exp), len(kmer) if kt == 'int' else np.dtype(kt).type(len(kmer)))
					except Exception as e:
						b2 = repr(e)
					if b2 != R.ref_upper(kmer):
						sh.violation('index_to_kmer-public-name', dict(kmer=kmer, index=exp, k=len(kmer), k_type=kt, index_type=it), R.ref_upper(kmer), b2)
						break
		if _enc(ck.kmer_to_index, rc) != exp_rc:
			sh.violation('rc-consistency', dict(kmer=kmer), exp_rc, _enc(ck.kmer_to_index, rc))
	if full:
		# Python wrappers and the other sequence types
		variants = [bytearray(kmer)]
		if all(b < 128 for b in kmer):
			from Bio.Seq import Seq
			s = kmer.decode('ascii')
			variants += [s, Seq(s)]
		for v in variants:
			sh.evals += 2
			if _enc(gk.kmer_to_index, v) != exp:
				sh.violation('kmer_to_index-wrapper', dict(kmer=kmer, type=type(v).__name__), exp, _enc(gk.kmer_to_index, v))
			if _enc(gk.kmer_to_index_rc, v) != exp_rc:
				sh.violation('kmer_to_index_rc-wrapper', dict(kmer=kmer, type=type(v).__name__), exp_rc, _enc(gk.kmer_to_index_rc, v))
	if kmer:
		sh.nontrivial += 1
	sh.count('accepted' if exp is not None else 'rejected')


def t_kmers(k, first):
	sh = Shard()
	from gambit._cython import kmers as ck
	seen = set()
	pool = [b'ACGT'[first:first + 1]] if first is not None else None
	if first is None:
		it = itertools.product(b'ACGT', repeat=k)
	else:
		it = ((b'ACGT'[first],) + t for t in itertools.product(b'ACGT', repeat=k - 1))
	n = 0
	prev = -1
	for t in it:
		kmer = bytes(t)
		_check_kmer(sh, kmer, None, full=(k <= 5))
		idx = R.ref_index(kmer)
		# enumeration order is lexicographic = index order: the map is monotone, hence injective
		if idx <= prev:
			sh.violation('model-order', dict(kmer=kmer), None, None)
		prev = idx
		n += 1
	# the other direction: every index 0..4^k-1 decodes to a distinct k-mer that encodes back
	lo, hi = (0, 4 ** k) if first is None else (first * 4 ** (k - 1), (first + 1) * 4 ** (k - 1))
	for idx in range(lo, hi):
		km = ck.index_to_kmer(idx, k)
		sh.evals += 1
		if km != R.ref_kmer(idx, k) or _enc(ck.kmer_to_index, km) != idx:
			sh.violation('index_to_kmer-bijection', dict(index=idx, k=k), R.ref_kmer(idx, k), km)
	sh.sample(dict(k=k, first=first, kmers=n, last=kmer.decode()))
	sh.outcome(['k', k, first])
	return sh


def t_case(k):
	sh = Shard()
	for t in itertools.product(b'ACGTacgt', repeat=k):
		_check_kmer(sh, bytes(t), None)
	sh.count('mixed_case', 8 ** k - 2 * 4 ** k)
	sh.sample(dict(case_patterns_k=k, n=8 ** k))
	return sh


def t_bytes(lo, hi):
	sh = Shard()
	if lo == 0:
		_check_kmer(sh, b'', None)
	for a in range(lo, hi):
		_check_kmer(sh, bytes([a]), None)
		for b in range(256):
			_check_kmer(sh, bytes([a, b]), None, full=False)
	sh.sample(dict(bytes_first=[lo, hi], second='0..255'))
	return sh


def t_bytes3(first):
	sh = Shard()
	for b in range(256):
		for c in range(256):
			_check_kmer(sh, bytes([first, b, c]), None, full=False)
	sh.sample(dict(len3_first_byte=first))
	return sh


def t_boundary():
	sh = Shard()
	from gambit._cython import kmers as ck
	import gambit.kmers as gk
	import os
	seed = int(os.environ.get('VERIF_SEED') or 0)
	for k in range(1, 34):
		cases = [b'A' * k, b'T' * k, b'C' * k, b'G' * k, (b'ACGT' * 9)[:k], (b'TGCA' * 9)[:k], (b'acgT' * 9)[:k]]
		# seed-rotated extra string: base-4 digits of a multiplicative sequence
		x = (seed * 2654435761 + k * 40503) % (4 ** k)
		cases.append(R.ref_kmer(x, k))
		for p in range(k):
			cases.append(b'A' * p + b'T' + b'A' * (k - p - 1))
			cases.append(b'T' * p + b'A' + b'T' * (k - p - 1))
			for bad in (b'N', b'\x00', b'\x01', b'U', b'\xc1', b'!', b'B', b'@'):
				cases.append(b'A' * p + bad + b'C' * (k - p - 1))
		for c in cases:
			_check_kmer(sh, c, None, full=True)
			if k == 33:
				sh.count('k33')
				if _enc(ck.kmer_to_index, c) is not None or _enc(ck.kmer_to_index_rc, c) is not None:
					sh.violation('k33-accepted', dict(kmer=c), None, 'encoded')
		if k <= 32:
			for idx in (0, 1, 4 ** k - 1, 4 ** k - 2, (4 ** k) // 2, x):
				idx %= 4 ** k
				km = ck.index_to_kmer(idx, k)
				sh.evals += 1
				if km != R.ref_kmer(idx, k):
					sh.violation('index_to_kmer', dict(index=idx, k=k), R.ref_kmer(idx, k), km)
			# index_dtype: smallest unsigned type able to hold 4^k-1
			dt = gk.index_dtype(k)
			sh.evals += 1
			if str(dt) != R.ref_dtype(k):
				sh.violation('index_dtype', dict(k=k), R.ref_dtype(k), str(dt))
	km = ck.index_to_kmer(2 ** 64 - 1, 32)
	if km != b'T' * 32:
		sh.violation('index_to_kmer', dict(index=2 ** 64 - 1, k=32), b'T' * 32, km)
	sh.sample(dict(boundary_k='1..33', example=cases[-1]))
	return sh


def t_long(seed):
	"""revcomp on long inputs (lengths around 16, 64, 256, 1024, 4096, 65536): every byte value and both cases occur at every residue class -
	a fast path that takes over above some length, or processes blocks, shows here."""
	from gambit._cython import kmers as ck
	import gambit.seq as gs
	import gambit.kmers as gk
	sh = Shard()
	lengths = [15, 16, 17, 63, 64, 65, 255, 256, 257, 1023, 1024, 1025, 4095, 4096, 4097, 65535, 65536, 65537]
	patterns = {
		'all-bytes': lambda n: bytes((i * 7 + seed) % 256 for i in range(n)),
		'mixed-case-acgt': lambda n: bytes(b'ACGTacgtNn'[(i * 3 + i // 7) % 10] for i in range(n)),
		'lower': lambda n: bytes(b'acgt'[(i + i // 5) % 4] for i in range(n)),
		'upper': lambda n: bytes(b'ACGT'[(i + i // 3) % 4] for i in range(n)),
		'iupac': lambda n: bytes(b'ACGTRYKMSWBDHVNUacgtrykmswbdhvnu'[(i * 5) % 32] for i in range(n)),
	}
	for n in lengths:
		for pname, mk in patterns.items():
			seq = mk(n)
			exp = R.ref_revcomp(seq)
			for name, fn in (('native', ck.revcomp), ('gambit.seq.revcomp', gs.revcomp), ('gambit.kmers.revcomp', gk.revcomp)):
				for variant in (seq, bytearray(seq)):
					got = fn(variant)
					sh.evals += 1
					if bytes(got) != exp:
						bad = next(i for i in range(n) if bytes(got)[i:i + 1] != exp[i:i + 1]) if len(got) == n else -1
						sh.violation('revcomp-long', dict(length=n, pattern=pname, name=name, first_bad_position=bad), exp[max(0, bad - 2):bad + 3], bytes(got)[max(0, bad - 2):bad + 3])
						break
			sh.nontrivial += 1
			sh.count('long_inputs')
	sh.sample(dict(family='long', lengths=lengths, patterns=list(patterns)))
	return sh


def finalize(agg, tier):
	agg.require('accepted', 1000)
	agg.require('rejected', 1000)
	agg.require('mixed_case', 100)
	agg.require('k33', 10)
	agg.require('long_inputs', 50)


def replay(case, kind=None):
	sh = Shard()
	from gambit._cython import kmers as ck
	if 'pattern' in case:
		import os
		return [v for v in t_long(int(os.environ.get('VERIF_SEED') or 0)).violations if v['case'] == case]
	if ('kmer' in case or 'seq' in case) and 'k_type' not in case:
		_check_kmer(sh, case.get('kmer', case.get('seq')), None)
	elif kind == 'index_dtype':
		import gambit.kmers as gk
		if str(gk.index_dtype(case['k'])) != R.ref_dtype(case['k']):
			sh.violation(kind, case, R.ref_dtype(case['k']), str(gk.index_dtype(case['k'])))
	elif 'k_type' in case:
		_check_kmer(sh, case['kmer'], None)
	elif 'index' in case:
		km = ck.index_to_kmer(case['index'], case['k'])
		if km != R.ref_kmer(case['index'], case['k']):
			sh.violation('index_to_kmer', case, R.ref_kmer(case['index'], case['k']), km)
	return sh.violations


MANIFEST = dict(
	engine='E-enum',
	technique='bounded exhaustive enumeration of inputs on the real code vs. reference model',
	text='Every k-mer for k<=8 (thorough 10), every byte string of length<=2 and every boundary k-mer for k<=33 is pushed through the real '
	     'native encoders/decoder/revcomp and compared with an independent base-4 model; this is the finite part of the quantifier, decided completely.',
	note='k>10 only at boundary patterns; compiled module = generated C in the tree (no Cython in the image); model in mc/refmodel.py trusted.',
)
