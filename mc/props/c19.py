"""C19 - an interrupted signature-file write never yields a loadable wrong file.

E-fault on the real POSIX driver of HDF5, real writer processes killed by SIGKILL (and, at L1 points, by SIGTERM and SIGINT with the process's own signal handling), the real load_signatures as judge:
  L1  between storage-library calls: the child wraps AttributeManager.__setitem__, Group.create_dataset, Dataset.__setitem__, File.close
      with a counter and SIGKILLs itself before call n, for every n, and after the last one;
  L2  between write system calls: native/killwrite.c (LD_PRELOAD) kills the process before the first / after the n-th write-type system call
      on the target file, for every n; the injector's count is cross-checked against an strace log of the fault-free run.
Payloads: both write paths (bare SignatureArray; list-backed annotated), small and multi-megabyte, with and without gzip; and the whole
'gambit signatures create' command as the writer (whatever it writes to its output path before, during and after parsing the genomes).
Oracle: load_signatures raises, OR the loaded object equals the collection being written (kmerspec, ids, meta, every signature read back).
"""
import json
import os
import signal
import subprocess
import sys
from concurrent.futures import ThreadPoolExecutor
from mc.core import Shard, HarnessError
from mc import fixtures, build
import numpy as np

ID = 'C19'
LEVEL = 'fault_enumeration'
RULE = ('every crash point of every configuration: L1 = before each h5py call of the write and after the last, L2 = before the first and after each write-type '
        'system call on the file; one case = one real writer process killed at that point + one real load of what it left; non-trivial = the file left '
        'behind is non-empty (something was written before the kill)')
ASSUMPTIONS = [
	'fault model = process death (SIGKILL at every point; SIGTERM and SIGINT at every library-call boundary, where Python-level handlers run): completed system calls persist, in order; power loss (reordered or torn writes) is not what the property says and is not injected',
	'one HDF5 version (2.0.0 as installed), POSIX (sec2) driver',
	'a file whose open succeeds but whose data cannot be read back (late error) counts as refused-with-an-error, reported separately',
]

CONFIGS_QUICK = [
	dict(path='fast', payload='small', comp='none'), dict(path='persig', payload='small', comp='none'),
	dict(path='fast', payload='small', comp='gzip'), dict(path='persig', payload='small', comp='gzip'),
	dict(path='fast', payload='medium', comp='none'), dict(path='persig', payload='medium', comp='none'),
]
CONFIGS_QUICK.append(dict(path='cli-create', payload='3-fasta-files', comp='none'))
CONFIGS_QUICK.append(dict(path='from-hdf5', payload='small', comp='none'))       # the source is itself an open signature file (re-writing / re-compressing one)
CONFIGS_THOROUGH = CONFIGS_QUICK + [
	dict(path='fast', payload='big', comp='none'), dict(path='persig', payload='big', comp='none'),
	dict(path='fast', payload='big', comp='gzip'), dict(path='persig', payload='big', comp='gzip'),
	dict(path='fast', payload='medium', comp='lzf'), dict(path='persig', payload='medium', comp='lzf'),
	dict(path='persig-bare', payload='small', comp='none'), dict(path='persig-bare', payload='medium', comp='gzip'),
	dict(path='fast', payload='empty-sigs', comp='none'), dict(path='persig', payload='empty-sigs', comp='none'),
	dict(path='annot-array', payload='small', comp='none'), dict(path='annot-array', payload='medium', comp='gzip'),
	dict(path='from-hdf5', payload='medium', comp='gzip'),
]


def plan(tier, seed):
	cfgs = CONFIGS_QUICK if tier == 'quick' else CONFIGS_THOROUGH
	tasks = []
	for c in cfgs:
		for level in ('L1', 'L2'):
			tasks.append(('t_crash', dict(cfg=c, level=level)))
		# other ways for the writer process to die at an L1 boundary: SIGTERM and SIGINT, delivered to the real process with whatever signal
		# handling it has (Python turns SIGINT into KeyboardInterrupt, so context managers run and the file is closed on the way out)
		if tier != 'quick' or c['payload'] != 'medium':
			for death in ('term', 'int'):
				tasks.append(('t_crash', dict(cfg=c, level='L1', death=death)))
	for comp in ('none', 'gzip'):
		tasks.append(('t_source_faults', dict(comp=comp)))
	return tasks


# ------------------------------------------------------------------------------------------- payload (child and parent build the same)

def payload(cfg):
	from gambit.kmers import KmerSpec
	from gambit.sigs.base import SignatureArray, SignatureList, AnnotatedSignatures, SignaturesMeta
	ks = KmerSpec(11, 'ATGAC')
	p = cfg['payload']
	if p == 'small':
		sets = [[1, 5, 9], [], [2, 4000, 4194303]]
	elif p == 'empty-sigs':
		sets = [[], [], []]
	else:
		total = (5 << 17) if p == 'medium' else (1 << 21)      # 2.5 MiB / 8 MiB of uint32 (several MiB-sized buffers' worth)
		nsig = 40
		per = total // nsig
		sets = []
		for i in range(nsig):
			start = (i * 7919) % 1000
			sets.append(np.arange(start, start + per * 3, 3, dtype='u4')[:per] if i % 7 else np.arange(0, dtype='u4'))
	arrs = [np.asarray(s, dtype='u4') for s in sets]
	ids = [f'GCF_{i:06d}.1' for i in range(len(arrs))]
	meta = SignaturesMeta(id='verif/c19', name='crash test', version='1.0', id_attr='refseq_acc', description='d', extra=dict(a=[1, 2], b='ü'))
	if cfg['path'] == 'fast':
		# only a bare SignatureArray takes the writer's fast path (values/bounds written as two whole datasets)
		obj = SignatureArray(arrs, ks, dtype=np.dtype('u4'))
		ids, meta = list(range(len(arrs))), SignaturesMeta()
	elif cfg['path'] == 'annot-array':
		obj = AnnotatedSignatures(SignatureArray(arrs, ks, dtype=np.dtype('u4')), ids, meta)
	elif cfg['path'] in ('persig', 'from-hdf5'):
		obj = AnnotatedSignatures(SignatureList(arrs, ks, dtype=np.dtype('u4')), ids, meta)
	else:
		obj = SignatureList(arrs, ks, dtype=np.dtype('u4'))
		ids, meta = list(range(len(arrs))), SignaturesMeta()
	return obj, ks, arrs, ids, meta


def write_kw(cfg):
	return {} if cfg['comp'] == 'none' else dict(compression=cfg['comp'])


# ------------------------------------------------------------------------------------------- child

def cli_files(d):
	"""Three small genomes for the 'gambit signatures create' writer."""
	paths = []
	for i, contigs in enumerate((['GGATGACAAAAAAAAAAAGGTT', 'CCATGACCCCCCCCCCCCTT'], ['TTATGACGTGTGTGTGTGTAA'], ['ATGACTTTTTTTTTTTCC' + 'GCGC' * 50])):
		p = os.path.join(d, f'genome{i}.fasta')
		fixtures.write_fasta(p, contigs)
		paths.append(p)
	return paths


def cli_expected(paths):
	from gambit.kmers import KmerSpec
	from gambit.seq import SequenceFile
	from gambit.sigs.calc import calc_file_signature
	from gambit.sigs.base import SignaturesMeta
	ks = KmerSpec(11, 'ATGAC')
	arrs = [calc_file_signature(ks, SequenceFile(p, 'fasta', 'auto')) for p in paths]
	return ks, arrs, [os.path.basename(p)[:-6] for p in paths], SignaturesMeta()


FAULT_KINDS = ['IndexError', 'KeyError', 'OSError', 'ValueError', 'MemoryError', 'StopIteration', 'KeyboardInterrupt', 'RuntimeError']


def lazy_source(fault=None):
	"""A signature collection fetched one signature at a time (sizes known up front), as a file- or database-backed source would be; with
	fault = (exception name, i) fetching signature i raises."""
	from gambit.kmers import KmerSpec
	from gambit.sigs.base import ReferenceSignatures, SignaturesMeta
	import builtins
	ks = KmerSpec(11, 'ATGAC')
	arrs = [np.arange(3 + 2 * i, 3 + 2 * i + 40 * (i + 1), 2, dtype='u4') for i in range(6)]
	ids = [f'lazy{i}' for i in range(6)]
	meta = SignaturesMeta(id='verif/lazy', id_attr='key')

	class Lazy(ReferenceSignatures):
		def __init__(self):
			self.kmerspec, self.ids, self.meta, self.dtype = ks, ids, meta, np.dtype('u4')

		def __len__(self):
			return len(arrs)

		def sizes(self):
			return np.array([len(a) for a in arrs])

		def sizeof(self, i):
			return len(arrs[i])

		def __getitem__(self, i):
			if not isinstance(i, (int, np.integer)):
				raise TypeError('one signature at a time')
			if i < 0 or i >= len(arrs):
				raise IndexError(i)
			if fault is not None and int(i) == fault[1]:
				raise getattr(builtins, fault[0])(f'backing store failed for signature {i}')
			return arrs[int(i)]
	return Lazy(), ks, arrs, ids, meta


def child_main(argv):
	cfg = json.loads(argv[0])
	if cfg['path'] == 'lazy-source':
		from gambit.sigs.base import dump_signatures
		f = cfg.get('fault')
		obj = lazy_source(tuple(f) if f else None)[0]
		dump_signatures(argv[1], obj, **write_kw(cfg))       # an exception of the source ends the process with a traceback
		print('DONE')
		return
	path = argv[1]
	level = argv[2]
	n = int(argv[3])
	from gambit.sigs.base import dump_signatures
	if cfg['path'] == 'cli-create':
		write = lambda: __import__('gambit.cli', fromlist=['cli']).cli.main(
			['signatures', 'create', '--no-progress', '-c', '1', '-k', '11', '-p', 'ATGAC', '-o', path] + cfg['files'], standalone_mode=False)
		obj = None
	elif cfg['path'] == 'from-hdf5':
		from gambit.sigs.base import load_signatures
		srcp = os.path.join(os.path.dirname(path), 'src-of-' + os.path.basename(path)[:-3] + '.h5')
		dump_signatures(srcp, payload(cfg)[0])           # written completely before any fault is armed
		obj = load_signatures(srcp)
		write = lambda: dump_signatures(path, obj, **write_kw(cfg))
	else:
		obj = payload(cfg)[0]
		write = lambda: dump_signatures(path, obj, **write_kw(cfg))
	if level == 'L1':
		import h5py
		state = dict(k=0)

		sig = dict(kill=signal.SIGKILL, term=signal.SIGTERM, int=signal.SIGINT)[os.environ.get('C19_DEATH', 'kill')]

		def boundary():
			if state['k'] == n:
				state['k'] += 1
				os.kill(os.getpid(), sig)          # SIGTERM / SIGINT: whatever handler the writer's process has installed decides how it dies
				return
			state['k'] += 1

		def wrap(cls, name):
			orig = getattr(cls, name)

			def w(self, *a, **kw):
				boundary()
				return orig(self, *a, **kw)
			setattr(cls, name, w)
		wrap(h5py.AttributeManager, '__setitem__')
		wrap(h5py.Group, 'create_dataset')
		wrap(h5py.Dataset, '__setitem__')
		wrap(h5py.File, 'close')
		write()
		boundary()                   # after the last call
		print('BOUNDARIES', state['k'])
	else:
		write()
		print('DONE')


def run_child(cfg, path, level, n, env_extra=None, strace_log=None):
	env = dict(os.environ)
	env.update(env_extra or {})
	cmd = [sys.executable, '-m', 'mc.props.c19', json.dumps(cfg), path, level, str(n)]
	if strace_log:
		cmd = ['strace', '-f', '-e', 'trace=write,pwrite64,writev,pwritev,ftruncate', '-y', '-o', strace_log] + cmd
	r = subprocess.run(cmd, env=env, capture_output=True, text=True, timeout=600)
	return r


# ------------------------------------------------------------------------------------------- judge

def judge(path, expected):
	"""-> (verdict, detail); verdict in absent / rejected / equal / late-error / DIFFERENT"""
	from gambit.sigs.base import load_signatures
	ks, arrs, ids, meta = expected
	if not os.path.exists(path):
		return 'absent', ''
	try:
		loaded = load_signatures(path)
	except BaseException as e:
		return 'rejected', type(e).__name__
	try:
		try:
			if loaded.kmerspec != ks:
				return 'DIFFERENT', f'kmerspec {loaded.kmerspec!r}'
			lids = [x.decode() if isinstance(x, bytes) else (x.item() if isinstance(x, np.generic) else x) for x in loaded.ids]
			if lids != list(ids):
				return 'DIFFERENT', f'ids {lids[:5]}... ({len(lids)})'
			if loaded.meta != meta:
				return 'DIFFERENT', f'meta {loaded.meta!r}'
			if len(loaded) != len(arrs):
				return 'DIFFERENT', f'len {len(loaded)} != {len(arrs)}'
			for i, a in enumerate(arrs):
				g = np.asarray(loaded[i])
				if g.dtype != a.dtype or not np.array_equal(g, a):
					return 'DIFFERENT', f'signature {i}: {g[:8].tolist()} (len {len(g)}) != {a[:8].tolist()} (len {len(a)})'
			whole = loaded[:]
			if [np.asarray(x).tolist() for x in whole] != [a.tolist() for a in arrs]:
				return 'DIFFERENT', 'slice [:] differs'
		except Exception as e:
			return 'late-error', type(e).__name__
		return 'equal', ''
	finally:
		try:
			loaded.close()
		except Exception:
			pass


def opens_as_hdf5(path):
	import h5py
	try:
		with h5py.File(path, 'r') as f:
			return True, 'gambit_signatures_version' in f.attrs
	except Exception:
		return False, False


def t_crash(cfg, level, death='kill'):
	sh = Shard()
	denv = dict(C19_DEATH=death)
	shim = os.path.join(build.NBUILD, 'libkillwrite.so')
	with fixtures.workdir('c19') as d:
		if cfg['path'] == 'cli-create':
			cfg = dict(cfg, files=cli_files(d))
			expected = cli_expected(cfg['files'])
		else:
			obj, ks, arrs, ids, meta = payload(cfg)
			expected = (ks, arrs, ids, meta)
		# fault-free run: count injection points; the complete file must load and be equal
		p0 = os.path.join(d, 'count.gs')
		extra = {}
		if level == 'L2':
			log = os.path.join(d, 'kw.log')
			r = run_child(cfg, p0, 'none', -1, dict(LD_PRELOAD=shim, KILLWRITE_TARGET='count.gs', KILLWRITE_LOG=log))
			if r.returncode != 0:
				raise HarnessError(f'fault-free writer failed: {r.stderr[-1500:]}')
			with open(log) as f:
				entries = [l.split() for l in f.read().splitlines()]
			npoints = len(entries)
			points = list(range(0, npoints + 1))
			# cross-check the injector's view against strace
			slog = os.path.join(d, 'strace.log')
			ps = os.path.join(d, 'strace.gs')
			try:
				rs = run_child(cfg, ps, 'none', -1, None, strace_log=slog)
				lines = [l for l in open(slog).read().splitlines() if 'strace.gs>' in l and '= -1' not in l and 'resumed' not in l]
				extra['strace_write_calls_on_file'] = len(lines)
				extra['strace_matches_injector_count'] = (len(lines) == npoints)
				if rs.returncode == 0 and len(lines) != npoints:
					raise HarnessError(f'injector saw {npoints} write calls, strace saw {len(lines)}')
			except (FileNotFoundError, PermissionError, subprocess.TimeoutExpired):
				extra['strace_matches_injector_count'] = None
			extra['write_calls'] = [' '.join(e[1:]) for e in entries][:40]
		else:
			r = run_child(cfg, p0, 'L1', -1)
			if r.returncode != 0 or 'BOUNDARIES' not in r.stdout:
				raise HarnessError(f'fault-free writer failed: {r.stderr[-1500:]}')
			npoints = int(r.stdout.split('BOUNDARIES')[1].split()[0])
			points = list(range(0, npoints))      # boundary k = before call k; the last boundary (after close) is npoints-1
		v, det = judge(p0, expected)
		sh.evals += 1
		if v != 'equal':
			sh.violation('complete-file-not-equal', dict(cfg=cfg, level=level, point='complete'), 'equal', f'{v}: {det}')
			return sh

		def one(n):
			p = os.path.join(d, f'crash{n}.gs')
			if level == 'L2':
				r = run_child(cfg, p, 'none', -1, dict(LD_PRELOAD=shim, KILLWRITE_TARGET=f'crash{n}.gs', KILLWRITE_AT=str(n)))
			else:
				r = run_child(cfg, p, 'L1', n, denv)
			killed = r.returncode == -signal.SIGKILL if death == 'kill' else r.returncode != 0
			size = os.path.getsize(p) if os.path.exists(p) else -1
			v, det = judge(p, expected)
			oh = opens_as_hdf5(p) if v == 'rejected' and size > 0 else (v in ('equal', 'late-error', 'DIFFERENT'), v != 'rejected')
			if os.path.exists(p):
				os.unlink(p)
			return n, killed, size, v, det, oh, r.stderr[-500:]

		with ThreadPoolExecutor(max_workers=6) as ex:
			results = list(ex.map(one, points))
		last = points[-1]
		for n, killed, size, v, det, oh, err in results:
			sh.evals += 1
			case = dict(cfg={k: v for k, v in cfg.items() if k != 'files'}, level=level, point=n, of=last)
			if death != 'kill':
				case['death'] = death
			if not killed and death != 'kill' and v == 'equal':
				sh.count('writer_survived_signal_and_completed')       # a writer may handle the signal and finish; then the file must be complete
			elif not killed:
				raise HarnessError(f'writer was not killed at point {n} of {last} ({cfg}, {level}): rc stderr={err}')
			if v == 'DIFFERENT':
				sh.violation('partial-file-loads-as-different-collection', case, 'rejected or equal', det)
				continue
			if size > 0:
				sh.nontrivial += 1
			sh.count('points_' + v.replace('-', '_'))
			if size > 0 and v == 'rejected':
				sh.count('nonempty_file_rejected')
				if oh[0]:
					sh.count('rejected_although_it_opens_as_hdf5')
				if oh[1]:
					sh.count('rejected_with_marker_visible')
			sh.outcome([level, death, v, det])
		sh.extra = dict(cfg={k: v for k, v in cfg.items() if k != 'files'}, level=level, death=death, points=len(points), verdicts=[r[3] for r in results], **extra)
	sh.sample(dict(cfg={k: v for k, v in cfg.items() if k != 'files'}, level=level, death=death, points=len(points), verdict_by_point=[r[3] for r in results]))
	return sh


def t_source_faults(comp, only=None):
	"""The writer's data source fails while signature i is fetched - every i, eight exception types (among them the ones iteration protocols
	treat as 'end of data').  Whatever the writer process then does (die with a traceback, or carry on), the file it leaves must be refused,
	or hold exactly the collection that was being written."""
	sh = Shard()
	cfg0 = dict(path='lazy-source', payload='six', comp=comp)
	_, ks, arrs, ids, meta = lazy_source()
	with fixtures.workdir('c19s') as d:
		p0 = os.path.join(d, 'ok.gs')
		r = run_child(cfg0, p0, 'none', -1)
		v, det = judge(p0, (ks, arrs, ids, meta))
		sh.evals += 1
		if r.returncode != 0 or v != 'equal':
			sh.violation('complete-file-not-equal', dict(cfg=cfg0, level='source', point='complete'), 'equal', f'{v}: {det} {r.stderr[-300:]}')
			return sh
		todo = [(kind, i) for kind in FAULT_KINDS for i in range(len(arrs)) if only is None or only == [kind, i]]

		def one(ki):
			kind, i = ki
			cfg = dict(cfg0, fault=[kind, i])
			p = os.path.join(d, f'f-{kind}-{i}.gs')
			r = run_child(cfg, p, 'none', -1)
			v, det = judge(p, (ks, arrs, ids, meta))
			size = os.path.getsize(p) if os.path.exists(p) else -1
			if os.path.exists(p):
				os.unlink(p)
			return kind, i, cfg, r.returncode, v, det, size
		with ThreadPoolExecutor(max_workers=6) as ex:
			results = list(ex.map(one, todo))
		for kind, i, cfg, rc, v, det, size in results:
			sh.evals += 1
			case = dict(cfg=cfg, level='source', point=i)
			if v == 'DIFFERENT':
				sh.violation('partial-file-loads-as-different-collection', case, 'rejected or equal', dict(loaded=det, writer_exit=rc))
				continue
			if v == 'equal':
				raise HarnessError(f'fault {kind}@{i} was not injected')
			if size > 0:
				sh.nontrivial += 1
			sh.count('source_fault_points')
			sh.count('source_fault_writer_' + ('died' if rc != 0 else 'returned_normally'))
			sh.outcome(['source', kind, v, det])
	sh.extra = dict(cfg=cfg0, level='source', death='source-exception', points=len(FAULT_KINDS) * len(arrs), verdicts=[])
	sh.sample(dict(family='source-faults', comp=comp, kinds=FAULT_KINDS, signatures=len(arrs)))
	return sh


def finalize(agg, tier):
	agg.require('nonempty_file_rejected', 10)
	agg.require('points_equal', 4)
	agg.require('rejected_although_it_opens_as_hdf5', 1)
	agg.coverage_extra['per_configuration'] = [dict(cfg=e['cfg'], level=e['level'], death=e.get('death', 'kill'), points=e['points'], verdicts=e['verdicts'],
	                                                 strace_matches_injector_count=e.get('strace_matches_injector_count')) for e in agg.extra]


def replay(case, kind=None):
	sh = Shard()
	cfg, level, n = case['cfg'], case['level'], case['point']
	if cfg['path'] == 'lazy-source':
		return t_source_faults(cfg['comp'], only=cfg.get('fault')).violations[:1]
	shim = os.path.join(build.NBUILD, 'libkillwrite.so')
	with fixtures.workdir('c19r') as d:
		if cfg['path'] == 'cli-create':
			cfg = dict(cfg, files=cli_files(d))
			ks, arrs, ids, meta = cli_expected(cfg['files'])
		else:
			obj, ks, arrs, ids, meta = payload(cfg)
		p = os.path.join(d, 'replay.gs')
		if n == 'complete':
			run_child(cfg, p, 'none', -1)
		elif level == 'L2':
			run_child(cfg, p, 'none', -1, dict(LD_PRELOAD=shim, KILLWRITE_TARGET='replay.gs', KILLWRITE_AT=str(n)))
		else:
			run_child(cfg, p, 'L1', n, dict(C19_DEATH=case.get('death', 'kill')))
		v, det = judge(p, (ks, arrs, ids, meta))
		if v == 'DIFFERENT' or (n == 'complete' and v != 'equal'):
			sh.violation(kind or 'partial-file-loads-as-different-collection', case, 'rejected or equal', f'{v}: {det}')
	return sh.violations


MANIFEST = dict(
	engine='E-fault',
	technique='exhaustive crash-point enumeration: one real writer process killed (SIGKILL; at library-call boundaries also SIGTERM and SIGINT) per h5py-call boundary and per write system call, real loader as judge',
	text='For both write paths, small and multi-megabyte payloads, with and without compression, a real writer process is killed at every boundary between '
	     'storage-library calls and after every write system call on the file (LD_PRELOAD injector, count cross-checked with strace); what it leaves is '
	     'given to the real load_signatures: it must raise, or yield exactly the collection being written (every signature read back).  At every library-call boundary the writer is '
	     'also sent SIGTERM and SIGINT and dies through its own signal handling (KeyboardInterrupt closes the file on the way out).',
	note='process-death fault model (no torn/reordered writes); HDF5 2.0.0 POSIX driver; late read errors counted as refusals.',
)


if __name__ == '__main__':
	child_main(sys.argv[1:])
