"""C13 - multi-file signature computation keeps file order under every completion order.

E-sched over an explicit model of the worker pool, every trace executed on the real executors:
  model state = sequence of tasks completed so far; with w workers and FIFO dispatch the running set is the first w uncompleted tasks in
  submission order; transition complete(i) for any running i; p = number of completions that happen during the submission loop (before
  as_completed is entered - a different code path).
Binding: calc_file_signatures creates its own ThreadPoolExecutor / ProcessPoolExecutor (replaced in the module namespace by recording
subclasses of the real classes so the futures are visible); the worker function is the real calc_file_signature followed by a per-task gate.
A controller thread releases gates in the order the model dictates, validating before every step that the task the model says is running has
in fact reached its gate (model/implementation divergence = harness error), waiting for future.done() and for the caller's progress tick
between steps - no sleeps.  Third mode: a caller-supplied executor whose completions are driven directly; it must be left open.
Faults: an unreadable file (missing path / corrupt gzip) at every position x every completion order - the call must raise.
Call histories: every sequence of valid and failing calls (incl. files that fail only after many records were parsed) in one process, per sharing mode.
"""
import gzip
import itertools
import time as _time
import multiprocessing
import os
import threading
from concurrent.futures import Executor, Future, ThreadPoolExecutor, ProcessPoolExecutor
from mc.core import Shard, HarnessError
from mc import fixtures
import numpy as np

ID = 'C13'
LEVEL = 'model_checking'
RULE = ('every completion order the pool model allows for n files and w workers x pre-completion count p x executor mode x fault position; one case = one '
        'real call of calc_file_signatures driven to that completion order; non-trivial = completion order differs from submission order, or a fault '
        'is present; states/transitions are those of the pool model, every trace is executed on the real executor')
ASSUMPTIONS = [
	'orders exhaustive for n <= 4 (quick) / 5 (thorough) files; FIFO dispatch of the pools is assumed by the model and validated at every step',
	"the library's process pool is driven with the Linux default start method (fork) only",
	'worker bodies: two threads interleaved at Python-line granularity inside gambit sources with <= 1 (quick) / 2 (thorough) preemptions; C-level and library-internal interleavings are not explored',
]
TIMEOUT = 60
PATIENCE = 0.05
SUBMIT_PATIENCE = 0.5

_CTL = None
_REAL = None


class Divergence(HarnessError):
	pass


def file_index_of(ctl, args, kwargs, fallback):
	"""Which input file a submitted task is about (looked up among its arguments) - so the harness does not assume that tasks are
	submitted in file order."""
	from gambit.seq import SequenceFile
	found = []

	def walk(x, depth=0):
		if isinstance(x, SequenceFile):
			if str(x.path) in ctl.index:
				occ = ctl.occ.get(str(x.path))
				# a file given several times: the k-th task about it stands for its k-th occurrence in the list
				found.append(occ.pop(0) if occ else ctl.index[str(x.path)])
		elif isinstance(x, (list, tuple)) and depth < 3:
			for y in x:
				walk(y, depth + 1)
	for x in list(args) + list(kwargs.values()):
		walk(x)
	if len(found) == 1:
		return found[0]
	if found:
		return found          # one task about SEVERAL files (an implementation may batch): the files in the order the task will open them
	return fallback


class Ctl:
	def __init__(self, n, files, mp):
		ctx = multiprocessing.get_context('fork') if mp else threading
		self.n = n
		self.index = {}
		self.occ = {}
		for i, f in enumerate(files):
			self.index.setdefault(str(f.path), i)
			self.occ.setdefault(str(f.path), []).append(i)
		self.gates = [ctx.Semaphore(0) for _ in range(n)]
		self.at_gate = [ctx.Event() for _ in range(n)]
		self.pre_done = threading.Event()
		self.closed = threading.Event()
		self.tick = threading.Condition()
		self.ticks = 0
		self.futs = []
		self.submitted = []
		self.fut_done = [threading.Event() for _ in range(n)]
		self.pos_done = []      # one event per SUBMITTED task, in submission order
		self.error = None
		self.shutdown_called = False
		self.impatient = 0
		self.adapted = 0


def gated_calc_file_signature(kspec, seqfile, **kw):
	ctl = _CTL
	i = ctl.index[str(seqfile.path)]
	try:
		res, exc = _REAL(kspec, seqfile, **kw), None
	except BaseException as e:
		res, exc = None, e
	ctl.at_gate[i].set()
	if not ctl.gates[i].acquire(timeout=TIMEOUT):
		raise RuntimeError('harness: gate never released')
	if exc is not None:
		raise exc
	return res


gated_calc_file_signature.__module__ = 'gambit.sigs.calc'
gated_calc_file_signature.__qualname__ = gated_calc_file_signature.__name__ = 'calc_file_signature'


_CREATED = []      # executors the library created during the current run (shut down by the harness afterwards if the library kept them)


def recording(base):
	class Rec(base):
		def __init__(self, *a, **kw):
			super().__init__(*a, **kw)
			self._verif_shut = False
			_CREATED.append(self)

		def submit(self, fn, *a, **kw):
			ctl = _CTL
			fut = super().submit(fn, *a, **kw)
			i = file_index_of(ctl, a, kw, len(ctl.futs))
			with ctl.tick:
				ctl.submitted.append(i)      # submission order as observed (an implementation may submit in any order)
				ctl.tick.notify_all()
			ctl.futs.append(fut)
			ev = threading.Event()
			ctl.pos_done.append(ev)
			fut.add_done_callback(lambda f, ev=ev: ev.set())
			if len(ctl.futs) == ctl.n:
				if not ctl.pre_done.wait(TIMEOUT):
					ctl.error = ctl.error or 'pre-completion phase timed out'
			return fut

		def shutdown(self, *a, **kw):
			_CTL.shutdown_called = True
			self._verif_shut = True
			return super().shutdown(*a, **kw)
	Rec.__name__ = Rec.__qualname__ = base.__name__
	return Rec


class ManualExecutor(Executor):
	"""Caller-supplied executor: nothing runs until the controller completes a task."""

	def __init__(self):
		self.tasks = []

	def submit(self, fn, *a, **kw):
		ctl = _CTL
		fut = Future()
		i = file_index_of(ctl, a, kw, len(ctl.futs))
		self.tasks.append((fn, a, kw, fut))
		with ctl.tick:
			ctl.submitted.append(i)
			ctl.tick.notify_all()
		ctl.futs.append(fut)
		ev = threading.Event()
		ctl.pos_done.append(ev)
		fut.add_done_callback(lambda f, ev=ev: ev.set())
		if len(ctl.futs) == ctl.n:
			if not ctl.pre_done.wait(TIMEOUT):
				ctl.error = ctl.error or 'pre-completion phase timed out'
		return fut

	def complete(self, i):
		fn, a, kw, fut = self.tasks[i]
		fut.set_running_or_notify_cancel()
		try:
			fut.set_result(fn(*a, **kw))
		except BaseException as e:
			fut.set_exception(e)

	def shutdown(self, *a, **kw):
		_CTL.shutdown_called = True


def make_meter(ctl):
	from gambit.util.progress import AbstractProgressMeter

	class Meter(AbstractProgressMeter):
		n = 0
		total = 0
		closed = False

		def increment(self, delta=1):
			with ctl.tick:
				ctl.ticks += delta
				ctl.tick.notify_all()

		def moveto(self, n):
			with ctl.tick:
				ctl.ticks = n
				ctl.tick.notify_all()

		def close(self):
			ctl.closed.set()
			with ctl.tick:
				ctl.tick.notify_all()

		@classmethod
		def create(cls, total, *, initial=0, desc=None, file=None, **kw):
			m = cls()
			m.total = total
			return m
	return Meter


def controller(ctl, order, p, manual):
	try:
		if p == 0:
			ctl.pre_done.set()
		done = 0
		pending = list(order)
		completed_pos = set()
		while pending:
			# the model speaks about the pos-th SUBMITTED task; translate to the file it is about.  An implementation that submits lazily
			# (a bounded in-flight window) has not submitted late positions yet and may need earlier completions first: after a short
			# patience the controller completes the oldest submitted, not yet completed task instead (the order is then 'adapted';
			# the result is judged at the end in any case).
			pos = pending[0]
			with ctl.tick:
				have = ctl.tick.wait_for(lambda: len(ctl.submitted) > pos or ctl.closed.is_set(), SUBMIT_PATIENCE)
			if ctl.closed.is_set():
				break
			if not have:
				cands = [q for q in range(len(ctl.submitted)) if q not in completed_pos]
				if not cands:
					with ctl.tick:
						if not ctl.tick.wait_for(lambda: len(ctl.submitted) > len(completed_pos) or ctl.closed.is_set(), TIMEOUT):
							raise Divergence(f'nothing submitted and nothing left to complete (waiting for submission position {pos})')
					continue
				pos = cands[0]
				ctl.adapted += 1
			pending.remove(pos)
			completed_pos.add(pos)
			i = ctl.submitted[pos]
			if manual is None:
				# the model says this task is running now: validate against the implementation.  A task about several files opens them one
				# after the other: each reaches its gate and is let through in turn.
				for fi in (i if isinstance(i, list) else [i]):
					t0 = _time.time()
					ended = False
					while not ctl.at_gate[fi].wait(0.002):
						if isinstance(i, list) and len(ctl.pos_done) > pos and ctl.pos_done[pos].is_set():
							ended = True          # a task about several files may end early (one of its files failed)
							break
						if _time.time() - t0 > TIMEOUT:
							raise Divergence(f'model/implementation divergence: task {i} should be running (order {order}) but file {fi} never reached its gate')
					if ended:
						break
					ctl.gates[fi].release()
			else:
				manual.complete(pos)
			t0 = _time.time()
			while len(ctl.pos_done) <= pos and _time.time() - t0 < TIMEOUT:
				_time.sleep(0.0005)
			if len(ctl.pos_done) <= pos or not ctl.pos_done[pos].wait(TIMEOUT):
				raise Divergence(f'future of task {i} not done after its gate was released')
			done += 1
			if done == p:
				ctl.pre_done.set()
			if done >= p:
				# give the caller the chance to consume every completion so far before the next one happens (or to give up: meter closed).
				# An implementation that consumes results in SUBMISSION order (e.g. executor.map) legitimately does not tick here; the
				# controller then moves on after a short patience instead of insisting - the result is judged only at the end.
				with ctl.tick:
					ok = ctl.tick.wait_for(lambda: ctl.ticks >= done or ctl.closed.is_set(), PATIENCE)
				if not ok:
					ctl.impatient += 1
			if ctl.closed.is_set():
				break
	except BaseException as e:
		ctl.error = ctl.error or repr(e)
	finally:
		ctl.pre_done.set()
		# drain: let every remaining worker finish so shutdown(wait=True) terminates
		if manual is None:
			for g in ctl.gates:
				g.release()
		else:
			for k, (fn, a, kw, fut) in enumerate(manual.tasks):
				if not fut.done():
					manual.complete(k)


def model_orders(n, w):
	"""All completion orders of the pool model + its states and transitions."""
	orders, states, trans = [], set(), 0
	stack = [()]
	while stack:
		done = stack.pop()
		states.add(done)
		if len(done) == n:
			orders.append(done)
			continue
		running = [i for i in range(n) if i not in done][:w]
		for i in reversed(running):
			trans += 1
			stack.append(done + (i,))
	return orders, len(states), trans


# -------------------------------------------------------------------------------------------- files

CONTIGS = ['ATGACAAAAAAAAAAAGG', 'CCATGACCCCCCCCCCCTT' * 3, 'GGATGACGTGTGTGTGTGAA' * 20, 'ATGACTTTTTTTTTTTCC' + 'GCGC' * 200, 'ATGACAAAAAAAAAAAGG']


def make_files(d, n, fault=None, faultkind='missing'):
	from gambit.seq import SequenceFile
	files = []
	for i in range(n):
		gz = (i % 2 == 1)
		p = os.path.join(d, f'f{i}.fa' + ('.gz' if gz else ''))
		# file i: contigs i.. (different sizes; files 0 and 4 share content = duplicate signatures)
		contigs = [CONTIGS[i % len(CONTIGS)]] + (['ATGAC' + 'ACGT' * 3 + 'A' * i] if i not in (0, 4) else [])
		fixtures.write_fasta(p, contigs, gz=gz)
		if fault == i:
			if faultkind == 'missing':
				os.unlink(p)
			elif faultkind == 'corrupt-gzip':
				with open(p, 'wb') as f:
					f.write(gzip.compress(b'>x\nATGACAAAAAAAAAAAGG\n' * 50)[:-12])
			else:
				with open(p, 'wb') as f:
					f.write(b'>x\nATGAC\xff\xfe\n')
		files.append(SequenceFile(p, 'fasta', 'gzip' if gz or (fault == i and faultkind == 'corrupt-gzip') else None))
	return files


def run_one(sh, ks, files, expected, mode, w, order, p, fault, faultkind):
	"""One real call of calc_file_signatures driven to one completion order."""
	global _CTL, _REAL
	import gambit.sigs.calc as calc
	from gambit.sigs.base import SignatureList
	n = len(files)
	fixtures.reset_gambit_globals()        # each run starts from the state of a freshly imported library (a pool kept from the previous run is shut down)
	del _CREATED[:]
	ctl = Ctl(n, files, mp=(mode == 'processes'))
	_CTL = ctl
	manual = ManualExecutor() if mode == 'executor' else None
	saved = (calc.ThreadPoolExecutor, calc.ProcessPoolExecutor, calc.calc_file_signature)
	_REAL = saved[2]
	calc.ThreadPoolExecutor, calc.ProcessPoolExecutor = recording(ThreadPoolExecutor), recording(ProcessPoolExecutor)
	if manual is None:
		calc.calc_file_signature = gated_calc_file_signature
	th = threading.Thread(target=controller, args=(ctl, order, p, manual), daemon=True)
	th.start()
	result = exc = None
	try:
		kw = dict(executor=manual) if manual is not None else dict(concurrency=mode, max_workers=w)
		result = calc.calc_file_signatures(ks, files, progress=make_meter(ctl), **kw)
	except BaseException as e:
		exc = e
	finally:
		ctl.closed.set()
		with ctl.tick:
			ctl.tick.notify_all()
		th.join(TIMEOUT + 5)
		calc.ThreadPoolExecutor, calc.ProcessPoolExecutor, calc.calc_file_signature = saved
		kept = [ex for ex in _CREATED if not ex._verif_shut]
		for ex in kept:
			# an implementation may keep its own pool alive between calls (nothing in the property forbids it); its workers carry this run's
			# gates, so the harness ends them here - every run is judged on a pool of its own
			fixtures.end_executor(ex)
		if kept:
			ctl.kept_own_executor = True
	if th.is_alive():
		raise HarnessError('controller thread stuck')
	if ctl.error:
		raise HarnessError(f'controller: {ctl.error} (mode={mode} w={w} order={order} p={p} fault={fault})')
	sh.evals += 1
	sh.traces += 1
	case = dict(mode=mode, workers=w, n=n, order=list(order), pre_completed=p, fault=fault, faultkind=faultkind if fault is not None else None)
	if fault is not None:
		if exc is None:
			sh.violation('fault-swallowed', case, 'the call raises', 'returned ' + repr(result))
		else:
			sh.nontrivial += 1
			sh.count('faults_raised')
			if order[0] == fault:
				sh.count('fault_completes_first')
			if order[-1] == fault:
				sh.count('fault_completes_last')
		return
	if exc is not None:
		sh.violation('unexpected-exception', case, 'result', repr(exc))
		return
	ok = isinstance(result, SignatureList) and len(result) == n and result.kmerspec == ks
	if ok:
		for i in range(n):
			if not (isinstance(result[i], np.ndarray) and result[i].dtype == expected[i].dtype and np.array_equal(result[i], expected[i])):
				ok = False
	if not ok:
		got = [None if r is None else np.asarray(r).tolist()[:6] for r in (list(result) if result is not None else [])]
		sh.violation('wrong-result', case, [e.tolist()[:6] for e in expected], got)
		return
	if manual is not None and ctl.shutdown_called:
		sh.violation('caller-executor-shut-down', case, 'left open', 'shutdown called')
		return
	if manual is None and getattr(ctl, 'kept_own_executor', False):
		sh.count('runs_where_the_library_kept_its_own_pool_alive')      # not judged: the statement says nothing about the lifetime of the library's own pools
	if list(order) != sorted(order):
		sh.nontrivial += 1
		sh.count('orders_differing_from_submission_order')
	if order[0] == n - 1:
		sh.count('last_submitted_finishes_first')
	if p:
		sh.count('runs_with_pre_completed_futures')
	sh.outcome([mode, w, list(order), p])


def plan(tier, seed):
	n = 4 if tier == 'quick' else 5
	tasks = []
	for mode in ('threads', 'processes', 'executor'):
		ws = [n] if mode == 'executor' else [1, 2, n]
		for w in ws:
			for fault in [None] + list(range(n)):
				tasks.append(('t_orders', dict(n=n, mode=mode, w=w, fault=fault, tier=tier, seed=seed)))
	tasks.append(('t_sequential', dict(n=n)))
	for pi in range(len(REPEATS)):
		tasks.append(('t_repeated', dict(pi=pi)))
	for w in (1, 2, 3):
		tasks.append(('t_overlapping_calls', dict(w=w)))
	for mode in ('threads', 'processes', 'executor'):
		tasks.append(('t_size_mix', dict(mode=mode, maxlen=5 if tier == 'quick' else 7)))
	for mi in range(len(CWD_MODES)):
		tasks.append(('t_cwd_histories', dict(mi=mi, depth=3 if tier == 'quick' else 4)))
	for mode in ('threads', 'processes', 'executor'):
		tasks.append(('t_many_files', dict(mode=mode, tier=tier)))
	# call HISTORIES: state carried from one call to the next (same thread / reused executor), incl. calls that fail mid-file
	for mode in ('sequential', 'reused-thread-executor-1', 'reused-thread-executor-2', 'reused-process-executor-1', 'threads', 'processes'):
		tasks.append(('t_histories', dict(mode=mode, depth=2 if tier == 'quick' else 3)))
	# worker BODIES interleaved at Python-line granularity (state shared between workers would show here)
	for pair in range(3):
		tasks.append(('t_bodies', dict(pair=pair, bound=2 if (tier != 'quick' and pair == 0) else 1)))
	for ki in range(2):
		tasks.append(('t_pool_bodies', dict(ki=ki, bound=1)))
	return tasks


def t_orders(n, mode, w, fault, tier, seed):
	from gambit.sigs.calc import calc_file_signature
	sh = Shard()
	ks = fixtures.kspec(11, 'ATGAC')
	orders, nstates, ntrans = model_orders(n, w)
	faultkinds = [None] if fault is None else (['missing', 'corrupt-gzip'] if (fault + seed) % 2 else ['missing', 'bad-bytes'])
	with fixtures.workdir('c13') as d:
		for fk in faultkinds:
			files = make_files(d, n, fault, fk)
			expected = None
			if fault is None:
				expected = [calc_file_signature(ks, f) for f in files]
				if len({tuple(e.tolist()) for e in expected}) < min(n, 4) - (1 if n >= 5 else 0):
					raise HarnessError('fixture signatures are not pairwise distinct')
			ps = [0, 1, 2, n] if fault is None else [0, 2]
			for order in orders:
				for p in ps:
					run_one(sh, ks, files, expected, mode, w, order, p, fault, fk)
	sh.states = nstates
	sh.transitions = ntrans
	sh.sample(dict(family='orders', mode=mode, workers=w, n=n, fault=fault, last_order=list(order), pre_completed=p, model_states=nstates))
	return sh


# file lists naming the same file more than once (the same genome twice on a command line or in a list file): one signature per ENTRY
REPEATS = ['aa', 'aba', 'aab', 'baa', 'abac', 'abca', 'aaa', 'abab', 'abba']


def t_repeated(pi, only=None):
	"""Every completion order (caller-supplied executor, all futures outstanding, p futures completed before the call starts collecting) for file
	lists with repeated entries; plus the sequential path and free-running thread / process pools with 1, 2, n workers."""
	from gambit.sigs.calc import calc_file_signature, calc_file_signatures
	from gambit.sigs.base import SignatureList
	sh = Shard()
	ks = fixtures.kspec(11, 'ATGAC')
	pat = REPEATS[pi]
	n = len(pat)
	with fixtures.workdir('c13p') as d:
		base = make_files(d, 3)
		files = [base['abc'.index(ch)] for ch in pat]
		expected = [calc_file_signature(ks, f) for f in files]
		orders, nstates, ntrans = model_orders(n, n)
		for order in orders:
			for p in (0, 1, n):
				if only is not None and (list(order), p, 'executor') != only:
					continue
				nb = len(sh.violations)
				run_one(sh, ks, files, expected, 'executor', n, order, p, None, None)
				for v in sh.violations[nb:]:
					v['case']['repeated'] = pat
		for mode, w in [(None, 0), ('threads', 1), ('threads', 2), ('threads', n), ('processes', 1), ('processes', 2), ('processes', n)]:
			if only is not None and only != ['free', mode, w]:
				continue
			sh.evals += 1
			case = dict(mode='repeated-free-running', repeated=pat, concurrency=mode, workers=w, n=n, order=None, pre_completed=0, fault=None, faultkind=None)
			try:
				res = calc_file_signatures(ks, files, concurrency=mode, **(dict(max_workers=w) if mode else {}))
			except BaseException as e:
				sh.violation('unexpected-exception', case, 'one signature per entry', repr(e))
				continue
			if not (isinstance(res, SignatureList) and len(res) == n and all(isinstance(a, np.ndarray) and np.array_equal(a, b) and a.dtype == b.dtype for a, b in zip(res, expected))):
				sh.violation('wrong-result', case, [e.tolist()[:6] for e in expected], [None if r is None else np.asarray(r).tolist()[:6] for r in res])
				continue
			sh.nontrivial += 1
			sh.count('repeated_entry_lists_free_running')
	sh.count('repeated_entry_lists', 1)
	sh.states, sh.transitions = nstates, ntrans
	sh.sample(dict(family='repeated', pattern=pat, orders=len(orders)))
	return sh


def t_size_mix(mode, maxlen, only=None):
	"""File lists mixing tiny files with files of 20 KiB and 300 KiB (anything that treats small and large inputs differently - batching,
	sorting by size, separate queues): every arrangement of sizes up to `maxlen` files, each file with content of its own."""
	from gambit.seq import SequenceFile
	from gambit.sigs.calc import calc_file_signature, calc_file_signatures
	from gambit.sigs.base import SignatureList
	sh = Shard()
	ks = fixtures.kspec(11, 'ATGAC')
	with fixtures.workdir('c13z') as d:
		def mk(i, size):
			# a k-mer of its own per file (base-4 digits of i after the prefix), padded to the wanted size with prefix-free filler
			own = 'ATGAC' + ''.join('ACGT'[(i >> (2 * j)) & 3] for j in range(11))
			filler = {'S': 0, 'M': 20 * 1024, 'L': 300 * 1024}[size]
			p = os.path.join(d, f'z{i}{size}.fa')
			fixtures.write_fasta(p, ['GG' + own + 'GG', 'CCGG' * (filler // 4) + own[::-1].replace('CAGTA', 'CCCCC')])
			return SequenceFile(p, 'fasta', None)
		files = {(i, sz): mk(i, sz) for i in range(maxlen) for sz in 'SML'}
		exp = {key: calc_file_signature(ks, f) for key, f in files.items()}
		for n in range(2, maxlen + 1):
			for pat in itertools.product('SML', repeat=n):
				if len(set(pat)) < 2 or (n > 4 and pat.count('S') < n - 2) or (only is not None and list(pat) != only):
					continue
				flist = [files[(i, sz)] for i, sz in enumerate(pat)]
				want = [exp[(i, sz)] for i, sz in enumerate(pat)]
				ex = ThreadPoolExecutor(max_workers=2) if mode == 'executor' else None
				kw = dict(executor=ex) if ex is not None else dict(concurrency=mode, max_workers=2)
				sh.evals += 1
				sh.traces += 1
				case = dict(mode='size-mix', concurrency=mode, workers=2, n=n, order=None, pre_completed=0, fault=None, faultkind=None, sizes=list(pat))
				try:
					res = calc_file_signatures(ks, flist, **kw)
				except BaseException as e:
					sh.violation('unexpected-exception', case, 'one signature per file', repr(e))
					continue
				finally:
					if ex is not None:
						ex.shutdown(wait=True)
				if not (isinstance(res, SignatureList) and len(res) == n and all(isinstance(a, np.ndarray) and np.array_equal(a, b) and a.dtype == b.dtype for a, b in zip(res, want))):
					sh.violation('wrong-result', case, [w.tolist()[:4] for w in want], [None if r is None else np.asarray(r).tolist()[:4] for r in res])
				else:
					sh.nontrivial += 1
					sh.count('size_mixed_file_lists')
	sh.states, sh.transitions = 1, sh.evals
	sh.sample(dict(family='size-mix', mode=mode, maxlen=maxlen))
	return sh


def t_overlapping_calls(w, only=None):
	"""Two calls in one process that OVERLAP in time, with different k-mer parameters and different files: call A (thread mode, w workers) is
	held while it opens its g-th file (a gate inside that file's parse()), call B (every mode) runs to completion in the meantime, then A
	continues.  Both must return the single-file signatures under their OWN parameters.  Deterministic: the gate decides the overlap."""
	from gambit.seq import SequenceFile
	from gambit.sigs.calc import calc_file_signature, calc_file_signatures
	from gambit.sigs.base import SignatureList
	sh = Shard()
	ksA, ksB = fixtures.kspec(11, 'ATGAC'), fixtures.kspec(9, 'ATGA')
	gate, reached = threading.Event(), threading.Event()

	class GatedFile(SequenceFile):
		def parse(self, **kw):
			reached.set()
			if not gate.wait(TIMEOUT):
				raise RuntimeError('harness: gate never opened')
			return super().parse(**kw)
	with fixtures.workdir('c13o') as d:
		fa = make_files(os.path.join(d, 'a'), 4)
		fb = list(reversed(make_files(os.path.join(d, 'b'), 3)))
		expA = [calc_file_signature(ksA, f) for f in fa]
		expB = [calc_file_signature(ksB, f) for f in fb]
		for g in range(len(fa)):
			for bmode, bw in [(None, 0), ('threads', 1), ('threads', 2), ('processes', 1)]:
				if only is not None and only != [g, bmode, bw]:
					continue
				fixtures.reset_gambit_globals()
				gate.clear(); reached.clear()
				files = list(fa)
				files[g] = GatedFile(fa[g].path, fa[g].format, fa[g].compression)
				box = {}

				def callA():
					try:
						box['res'] = calc_file_signatures(ksA, files, concurrency='threads', max_workers=w)
					except BaseException as e:
						box['exc'] = e
				th = threading.Thread(target=callA, daemon=True)
				th.start()
				case = dict(mode='overlapping-calls', workers=w, n=len(fa), order=None, pre_completed=0, fault=None, faultkind=None, gated_file=g, other_call=[bmode, bw])
				try:
					if not reached.wait(TIMEOUT):
						raise HarnessError(f'call A never opened its file {g}: {box.get("exc")!r}')
					try:
						resB = calc_file_signatures(ksB, fb, concurrency=bmode, **(dict(max_workers=bw) if bmode else {}))
						errB = None
					except BaseException as e:
						resB, errB = None, e
				finally:
					gate.set()
				th.join(TIMEOUT)
				if th.is_alive():
					raise HarnessError('call A did not return after its gate was opened')
				sh.evals += 1
				sh.traces += 1

				def good(res, exp, ks):
					return isinstance(res, SignatureList) and res.kmerspec == ks and len(res) == len(exp) and all(isinstance(a, np.ndarray) and a.dtype == b.dtype and np.array_equal(a, b) for a, b in zip(res, exp))
				if errB is not None or 'exc' in box:
					sh.violation('unexpected-exception', case, 'both calls return', repr(errB or box.get('exc')))
				elif not good(box.get('res'), expA, ksA):
					sh.violation('overlapping-calls-interfere', dict(case, wrong_call='A'), [e.tolist()[:5] for e in expA], [np.asarray(r).tolist()[:5] for r in box['res']])
				elif not good(resB, expB, ksB):
					sh.violation('overlapping-calls-interfere', dict(case, wrong_call='B'), [e.tolist()[:5] for e in expB], [np.asarray(r).tolist()[:5] for r in resB])
				else:
					sh.nontrivial += 1
					sh.count('overlapping_call_pairs')
		fixtures.reset_gambit_globals()
	sh.states, sh.transitions = 1, sh.evals
	sh.sample(dict(family='overlapping-calls', workers=w))
	return sh


# relative file names and a working directory that changes between calls (a pipeline that cd's into one sample directory after the other)
CWD_MODES = [(None, 0), ('threads', 1), ('threads', 2), ('processes', 1), ('processes', 2), ('processes', None), ('reused-thread-executor', 2)]


def t_cwd_histories(mi, depth, only=None):
	"""Every sequence (length 2..depth, at least one change) of working directories A / B / C, each holding files with the SAME relative names
	and different contents; every call names its files relatively.  Each call must return the single-file signatures of the files those names
	denote at the time of the call.  One process per history sequence of calls, real executors, nothing gated."""
	from gambit.seq import SequenceFile
	from gambit.sigs.calc import calc_file_signature, calc_file_signatures
	from gambit.sigs.base import SignatureList
	sh = Shard()
	mode, w = CWD_MODES[mi]
	ks = fixtures.kspec(11, 'ATGAC')
	old = os.getcwd()
	with fixtures.workdir('c13c') as d:
		names = ['f0.fa', 'f1.fa.gz', 'f2.fa']
		dirs = {}
		for di, dn in enumerate('ABC'):
			dd = os.path.join(d, dn)
			os.makedirs(dd)
			made = make_files(os.path.join(dd, 'src'), 5)
			# directory A holds the contents of files 0,1,2; B of 2,3,0 ...: same names, different genomes
			for j, nm in enumerate(names):
				src = made[(j + 2 * di) % 5]
				contigs_gz = str(src.path).endswith('.gz')
				data = gzip.open(src.path, 'rb').read() if contigs_gz else open(src.path, 'rb').read()
				with (gzip.open(os.path.join(dd, nm), 'wb') if nm.endswith('.gz') else open(os.path.join(dd, nm), 'wb')) as f:
					f.write(data)
			dirs[dn] = dd
		files = [SequenceFile(nm, 'fasta', 'gzip' if nm.endswith('.gz') else None) for nm in names]
		try:
			for L in range(2, depth + 1):
				for hist in itertools.product('ABC', repeat=L):
					if len(set(hist)) < 2 or (only is not None and list(hist) != only):
						continue
					fixtures.reset_gambit_globals()
					ex = ThreadPoolExecutor(max_workers=w) if mode == 'reused-thread-executor' else None
					kw = dict(executor=ex) if ex is not None else dict(concurrency=mode, **({'max_workers': w} if mode and w else {}))
					try:
						for step, dn in enumerate(hist):
							os.chdir(dirs[dn])
							exp = [calc_file_signature(ks, f) for f in files]
							sh.evals += 1
							sh.transitions += 1
							sh.traces += 1
							case = dict(mode='cwd-history', concurrency=mode, workers=w, n=len(files), order=None, pre_completed=0, fault=None, faultkind=None, history=list(hist[:step + 1]))
							try:
								res = calc_file_signatures(ks, files, **kw)
							except BaseException as e:
								sh.violation('unexpected-exception', case, 'one signature per file', repr(e))
								break
							if not (isinstance(res, SignatureList) and len(res) == len(exp) and all(isinstance(a, np.ndarray) and np.array_equal(a, b) and a.dtype == b.dtype for a, b in zip(res, exp))):
								sh.violation('result-depends-on-earlier-calls', case, [e.tolist()[:5] for e in exp], [None if r is None else np.asarray(r).tolist()[:5] for r in res])
								break
							if step:
								sh.nontrivial += 1
								sh.count('calls_after_a_change_of_working_directory')
					finally:
						os.chdir(old)
						if ex is not None:
							ex.shutdown(wait=True)
		finally:
			os.chdir(old)
			fixtures.reset_gambit_globals()
	sh.states = 3
	sh.sample(dict(family='cwd-histories', concurrency=mode, workers=w, depth=depth))
	return sh


def t_many_files(mode, tier):
	"""File counts well above the worker count (n = 5..13, thorough 21, 33; w = 1, 2, 3): for each (n, w) the submission-order run plus the
	most skewed orders the pool model allows (always finish the NEWEST running task first; alternate oldest / newest) - bounded in-flight
	windows, batching by worker count and similar bookkeeping show here."""
	from gambit.sigs.calc import calc_file_signature
	sh = Shard()
	ks = fixtures.kspec(11, 'ATGAC')
	ns = [5, 6, 7, 9, 13] + ([21, 33] if tier != 'quick' else [])
	with fixtures.workdir('c13m') as d:
		for n in ns:
			files = make_files(d, n)
			expected = [calc_file_signature(ks, f) for f in files]
			for w in ((1, 2, 3) if mode != 'executor' else (n,)):
				orders = set()
				for strategy in ('oldest', 'newest', 'alternate'):
					done = []
					while len(done) < n:
						running = [i for i in range(n) if i not in done][:w]
						pick = running[0] if strategy == 'oldest' or (strategy == 'alternate' and len(done) % 2 == 0) else running[-1]
						done.append(pick)
					orders.add(tuple(done))
				for order in sorted(orders):
					for p in (0, 2):
						run_one(sh, ks, files, expected, mode, w, order, p, None, None)
						sh.count('many_file_runs')
	sh.states = 1
	sh.transitions = 1
	sh.sample(dict(family='many-files', mode=mode, ns=ns))
	return sh


def t_sequential(n):
	from gambit.sigs.calc import calc_file_signature, calc_file_signatures
	from gambit.sigs.base import SignatureList
	sh = Shard()
	ks = fixtures.kspec(11, 'ATGAC')
	with fixtures.workdir('c13s') as d:
		files = make_files(d, n)
		expected = [calc_file_signature(ks, f) for f in files]
		res = calc_file_signatures(ks, files, concurrency=None)
		sh.evals += 1
		if not (isinstance(res, SignatureList) and len(res) == n and all(np.array_equal(a, b) and a.dtype == b.dtype for a, b in zip(res, expected))):
			sh.violation('wrong-result', dict(mode='sequential', n=n, order=list(range(n)), workers=0, pre_completed=0, fault=None, faultkind=None))
		for fault in range(n):
			for fk in ('missing', 'corrupt-gzip'):
				files = make_files(d, n, fault, fk)
				sh.evals += 1
				try:
					r = calc_file_signatures(ks, files, concurrency=None)
					sh.violation('fault-swallowed', dict(mode='sequential', n=n, order=list(range(n)), workers=0, pre_completed=0, fault=fault, faultkind=fk), 'raises', repr(r))
				except Exception:
					sh.count('faults_raised')
		# no files at all: an empty collection, in every mode, with and without an explicit worker count
		for kw in (dict(concurrency=None), dict(concurrency='threads'), dict(concurrency='threads', max_workers=2), dict(concurrency='processes', max_workers=1),
		           dict(concurrency='processes'), dict(executor=ThreadPoolExecutor(max_workers=1))):
			sh.evals += 1
			desc = {k: (v if not isinstance(v, Executor) else 'ThreadPoolExecutor(1)') for k, v in kw.items()}
			try:
				r = calc_file_signatures(ks, [], **kw)
				if not (isinstance(r, SignatureList) and len(r) == 0 and r.kmerspec == ks):
					sh.violation('wrong-result', dict(mode='empty-list', n=0, order=[], workers=0, pre_completed=0, fault=None, faultkind=None, kw=desc), 'empty SignatureList', repr(r))
				else:
					sh.count('empty_file_lists')
			except Exception as e:
				sh.violation('unexpected-exception', dict(mode='empty-list', n=0, order=[], workers=0, pre_completed=0, fault=None, faultkind=None, kw=desc), 'empty SignatureList', repr(e))
			finally:
				if 'executor' in kw:
					kw['executor'].shutdown()
		for bad in ('thread', 'x'):
			try:
				calc_file_signatures(ks, files[:1], concurrency=bad)
				sh.violation('bad-concurrency-accepted', dict(mode=bad, n=1, order=[0], workers=0, pre_completed=0, fault=None, faultkind=None))
			except ValueError:
				pass
	sh.states = 1
	sh.transitions = 1
	sh.sample(dict(family='sequential', n=n))
	return sh


def late_fault_file(d, kind, name):
	"""A file that fails only AFTER many records have been parsed (so k-mers of its first part have already been accumulated)."""
	from gambit.seq import SequenceFile
	import random
	rnd = random.Random(12345)
	recs = []
	for i in range(1500):
		km = ''.join(rnd.choice('ACGT') for _ in range(13))
		recs.append(f'>r{i}\nGG{"ATGAC"}{km}CC\n')
	text = ''.join(recs).encode('ascii')
	p = os.path.join(d, name)
	if kind == 'late-bad-byte':
		with open(p, 'wb') as f:
			f.write(text + b'>bad\nATGAC\xff\xfeAAAA\n')
		return SequenceFile(p, 'fasta', None)
	if kind == 'late-truncated-gzip':
		with open(p, 'wb') as f:
			f.write(gzip.compress(text, mtime=0)[:-2000])
		return SequenceFile(p, 'fasta', 'gzip')
	raise AssertionError(kind)


def t_histories(mode, depth):
	"""Every sequence (to the depth bound) of calls {valid A, valid B, faulty-missing, faulty-late-bad-byte, faulty-late-truncated-gzip} in ONE
	process, sharing whatever the mode shares between calls (the calling thread; a caller-supplied executor that is reused; nothing for per-call
	pools): every valid call must return the per-file signatures, every faulty call must raise - whatever happened in earlier calls."""
	import gambit.sigs.calc as calc
	from gambit.sigs.calc import calc_file_signature, calc_file_signatures
	from gambit.sigs.base import SignatureList
	fixtures.reset_gambit_globals()
	sh = Shard()
	ks_list = [fixtures.kspec(11, 'ATGAC'), fixtures.kspec(12, 'ATGAC')]      # dense accumulator / set accumulator
	with fixtures.workdir('c13h') as d:
		filesA = make_files(d, 3)
		filesB = list(reversed(make_files(os.path.join(d, 'b'), 4)))[:3]
		faulty = {
			'F-missing': make_files(os.path.join(d, 'f1'), 3, 1, 'missing'),
			'F-late-bad-byte': [filesA[0], late_fault_file(d, 'late-bad-byte', 'late.fa'), filesA[1]],
			'F-late-truncated-gzip': [late_fault_file(d, 'late-truncated-gzip', 'late.fa.gz'), filesA[2]],
		}
		events = ['A', 'B'] + list(faulty)
		states = set()
		for ks in ks_list:
			expA = [calc_file_signature(ks, f) for f in filesA]
			expB = [calc_file_signature(ks, f) for f in filesB]
			for hist in itertools.product(events, repeat=depth):
				if not any(e in ('A', 'B') for e in hist[1:]):
					continue      # a history is only informative if a valid call follows something
				ex = None
				if mode.startswith('reused-thread-executor'):
					ex = ThreadPoolExecutor(max_workers=int(mode[-1]))
				elif mode.startswith('reused-process-executor'):
					ex = ProcessPoolExecutor(max_workers=1)
				kw = dict(executor=ex) if ex is not None else dict(concurrency=None if mode == 'sequential' else mode)
				fixtures.reset_gambit_globals()      # every history starts from the state of a freshly imported library
				try:
					for step, ev in enumerate(hist):
						files = filesA if ev == 'A' else filesB if ev == 'B' else faulty[ev]
						sh.evals += 1
						sh.transitions += 1
						sh.traces += 1
						states.add((repr(ks), hist[:step + 1]))
						case = dict(mode='history:' + mode, n=len(files), order=[], workers=0, pre_completed=0, fault=None, faultkind=None, k=ks.k, history=list(hist[:step + 1]))
						try:
							res = calc_file_signatures(ks, files, **kw)
							err = None
						except Exception as e:
							res, err = None, e
						if ev in faulty:
							if err is None:
								sh.violation('fault-swallowed', case, 'the call raises', 'returned')
								break
							sh.count('history_faults_raised')
							continue
						exp = expA if ev == 'A' else expB
						if err is not None:
							sh.violation('unexpected-exception', case, 'result', repr(err))
							break
						if not (isinstance(res, SignatureList) and len(res) == len(exp) and all(np.array_equal(a, b) and a.dtype == b.dtype for a, b in zip(res, exp))):
							sh.violation('result-depends-on-earlier-calls', case, [e.tolist()[:5] for e in exp], [np.asarray(r).tolist()[:5] for r in (res if res is not None else [])])
							break
						if step:
							sh.nontrivial += 1
							if any(e in faulty for e in hist[:step]):
								sh.count('valid_calls_after_a_failed_call')
				finally:
					if ex is not None:
						ex.shutdown(wait=True)
		sh.states = len(states)
	sh.sample(dict(family='histories', mode=mode, depth=depth, events=events, last_history=list(hist)))
	return sh


def t_bodies(pair, bound):
	"""Two threads each run the real calc_file_signature on its own file; every interleaving of their gambit source lines with at most
	`bound` preemptions is executed (sys.settrace baton); both results must equal the sequential ones in every interleaving."""
	from mc import sched, build
	from gambit.seq import SequenceFile
	from gambit.sigs.calc import calc_file_signature
	sh = Shard()
	src = os.path.realpath(build.SRC) + os.sep
	ks_list = [fixtures.kspec(4, 'AT'), fixtures.kspec(11, 'ATGAC'), fixtures.kspec(12, 'AT')]      # dense, dense (k=11), set accumulator
	ks = ks_list[pair]
	with fixtures.workdir('c13b') as d:
		seqs = [['GGATGACAAAAAAAAAAAGGATCCCCCCCCCCCCC'], ['CCATGACCCCCCCCCCCGGATAAAAAAAAAAAAAC']]
		files = []
		for i, contigs in enumerate(seqs):
			p = os.path.join(d, f'b{i}.fa')
			fixtures.write_fasta(p, contigs)
			files.append(SequenceFile(p, 'fasta', None))
		expected = [calc_file_signature(ks, f) for f in files]
		if np.array_equal(expected[0], expected[1]):
			raise HarnessError('fixture: the two files must have different signatures')
		il = sched.LineInterleaver([lambda f=f: calc_file_signature(ks, f) for f in files], lambda fn: os.path.realpath(fn).startswith(src))
		states = set()
		for choices, trace, results in sched.explore(il.run, bound):
			sh.evals += 1
			sh.traces += 1
			ok = all(r is not None and r[0] == 'ok' and isinstance(r[1], np.ndarray) and r[1].dtype == e.dtype and np.array_equal(r[1], e) for r, e in zip(results, expected))
			if not ok:
				sh.violation('worker-bodies-interfere', dict(mode='bodies', n=2, order=[], workers=2, pre_completed=0, fault=None, faultkind=None, pair=pair, schedule=choices),
				             [e.tolist() for e in expected], [None if r is None else (r[1].tolist() if r[0] == 'ok' else r[1]) for r in results])
			if sched.preemptions(trace):
				sh.nontrivial += 1
			h = 0
			for t in trace:
				h = hash((h, t[2], t[0]))
				states.add(h)
		sh.states = len(states) + 1
		sh.transitions = len(states)
		sh.count('body_interleavings', sh.evals)
	sh.sample(dict(family='bodies', kmerspec=repr(ks), preemption_bound=bound, interleavings=sh.evals, trace_length=len(trace)))
	return sh


def t_pool_bodies(ki, bound):
	"""The callables that calc_file_signatures itself hands to its thread pool (captured by a ThreadPoolExecutor subclass that runs nothing) are
	interleaved at Python-line granularity under pool semantics (3 files, 2 workers: the third body may start only when one of the first two has
	finished; bodies start in submission order), <= `bound` preemptions.  Whatever the implementation shares between its own tasks - buffers
	handed to several tasks, per-worker slots - is exercised in every such overlap, deterministically."""
	from mc import sched, build
	import gambit.sigs.calc as calc
	from gambit.seq import SequenceFile
	from gambit.sigs.calc import calc_file_signature
	from gambit.sigs.base import SignatureList
	import time as _time
	sh = Shard()
	src = os.path.realpath(build.SRC) + os.sep
	ks = [fixtures.kspec(11, 'ATGAC'), fixtures.kspec(12, 'ATGAC')][ki]
	with fixtures.workdir('c13p') as d:
		seqs = [['GGATGACAAAAAAAAAAAAGGATGACCCCCCCCCCCCCAT'], ['CCATGACGGGGGGGGGGGGT'], ['TTATGACTTTTTTTTTTTTG']]
		files = []
		for i, contigs in enumerate(seqs):
			p = os.path.join(d, f'p{i}.fa')
			fixtures.write_fasta(p, contigs)
			files.append(SequenceFile(p, 'fasta', None))
		expected = [calc_file_signature(ks, f) for f in files]
		n, w = len(files), 2

		class CapturingPool(ThreadPoolExecutor):
			def __init__(self, *a, **kw):
				super().__init__(*a, **kw)
				self.captured = []
				# a pool runs its initializer in every worker thread before the first task: every interleaved body is a worker of its own here
				self.init = (kw.get('initializer') or (a[2] if len(a) > 2 else None), kw.get('initargs') or (a[3] if len(a) > 3 else ()))

			def submit(self, fn, *a, **kw):
				fut = Future()
				self.captured.append((fn, a, kw, fut))
				return fut
		states = set()

		def run(prefix):
			pools = []

			def make_pool(*a, **kw):
				pools.append(CapturingPool(*a, **kw))
				return pools[-1]
			saved = calc.ThreadPoolExecutor
			calc.ThreadPoolExecutor = type('ThreadPoolExecutor', (CapturingPool,), {})
			made = []
			orig_init = CapturingPool.__init__
			box = {}

			def main():
				try:
					box['res'] = calc.calc_file_signatures(ks, files, concurrency='threads', max_workers=w)
				except BaseException as e:
					box['exc'] = e
			# find the pool instance through the class (the library creates it itself)
			instances = []
			cls = calc.ThreadPoolExecutor
			cls.__init__ = lambda self, *a, **kw: (orig_init(self, *a, **kw), instances.append(self))[0]
			th = threading.Thread(target=main, daemon=True)
			th.start()
			try:
				t0 = _time.time()
				last, since = -1, _time.time()
				while not instances or len(instances[0].captured) < n:
					if 'exc' in box or _time.time() - t0 > TIMEOUT:
						raise HarnessError(f'tasks were not handed to the pool: {box.get("exc")!r}')
					# an implementation may hand over FEWER tasks than files (batches): go on once the number of tasks has stopped growing
					cur = len(instances[0].captured) if instances else 0
					if cur != last:
						last, since = cur, _time.time()
					elif cur > 0 and _time.time() - since > 0.25:
						break
					_time.sleep(0.0002)
				cap = instances[0].captured

				def on_done(i, r):
					fut = cap[i][3]
					fut.set_running_or_notify_cancel()
					if r[0] == 'ok':
						fut.set_result(r[1])
					else:
						fut.set_exception(RuntimeError(r[1]))
				init = instances[0].init

				def body(c):
					if init[0] is not None:
						init[0](*init[1])
					return c[0](*c[1], **c[2])
				il = sched.LineInterleaver([lambda c=c: body(c) for c in cap], lambda fn: os.path.realpath(fn).startswith(src), max_active=w, on_done=on_done)
				trace, results = il.run(prefix)
				th.join(TIMEOUT)
				if th.is_alive():
					raise HarnessError('calc_file_signatures did not return after all its tasks completed')
			finally:
				calc.ThreadPoolExecutor = saved
			return trace, box

		for choices, trace, box in sched.explore(run, bound):
			sh.evals += 1
			sh.traces += 1
			res = box.get('res')
			ok = 'exc' not in box and isinstance(res, SignatureList) and len(res) == n and all(
				isinstance(r, np.ndarray) and r.dtype == e.dtype and np.array_equal(r, e) for r, e in zip(res, expected))
			if not ok:
				sh.violation('pool-tasks-interfere', dict(mode='pool-bodies', n=n, order=[], workers=w, pre_completed=0, fault=None, faultkind=None, ki=ki, schedule=choices),
				             [e.tolist() for e in expected], repr(box.get('exc')) if 'exc' in box else [np.asarray(r).tolist() for r in res])
			if sched.preemptions(trace):
				sh.nontrivial += 1
			h = 0
			for t in trace:
				h = hash((h, t[2], t[0]))
				states.add(h)
		sh.states = len(states) + 1
		sh.transitions = len(states)
		sh.count('pool_body_interleavings', sh.evals)
	sh.sample(dict(family='pool-bodies', kmerspec=repr(ks), files=n, workers=w, preemption_bound=bound, interleavings=sh.evals, trace_length=len(trace)))
	return sh


def violation_key(v):
	# with >= 2 futures finished before as_completed() is entered, their yield order is the iteration order of a set of Future objects
	# (memory addresses) - not owned by the harness; prefer counterexamples whose replay is deterministic
	from mc.core import jdump
	# schedule-controlled counterexamples (line-level interleavings) replay deterministically; results of free-running threads may not
	racy = v['kind'] in ('wrong-result', 'result-depends-on-earlier-calls') and v['case'].get('mode') in ('threads', 'history:threads', 'history:reused-thread-executor-2')
	return (racy, v['case'].get('pre_completed', 0) > 1, v['kind'] not in ('pool-tasks-interfere', 'worker-bodies-interfere') and racy, len(jdump(v['case'])))


def finalize(agg, tier):
	for c in ('orders_differing_from_submission_order', 'last_submitted_finishes_first', 'runs_with_pre_completed_futures', 'faults_raised',
	          'fault_completes_first', 'fault_completes_last', 'body_interleavings', 'valid_calls_after_a_failed_call', 'many_file_runs', 'pool_body_interleavings'):
		agg.require(c, 10)


def replay(case, kind=None):
	from gambit.sigs.calc import calc_file_signature
	sh = Shard()
	ks = fixtures.kspec(11, 'ATGAC')
	if case['mode'] == 'pool-bodies':
		return [v for v in t_pool_bodies(case['ki'], 1).violations if v['case'].get('schedule') == case['schedule']][:1]
	if case['mode'].startswith('history:'):
		vs = t_histories(case['mode'].split(':', 1)[1], len(case['history'])).violations
		return [v for v in vs if v['case'].get('history') == case['history'] and v['case'].get('k') == case.get('k')][:1]
	if case['mode'] == 'bodies':
		return [v for v in t_bodies(case['pair'], 2).violations if v['case'].get('schedule') == case['schedule']][:1] or t_bodies(case['pair'], 2).violations[:1] and []
	if case['mode'] == 'size-mix':
		return t_size_mix(case['concurrency'], max(case['n'], 2), only=list(case['sizes'])).violations[:1]
	if case['mode'] == 'overlapping-calls':
		return t_overlapping_calls(case['workers'], only=[case['gated_file'], case['other_call'][0], case['other_call'][1]]).violations[:1]
	if case['mode'] == 'cwd-history':
		mi = CWD_MODES.index((case['concurrency'], case['workers']))
		return t_cwd_histories(mi, len(case['history']), only=list(case['history'])).violations[:1]
	if case.get('repeated'):
		pi = REPEATS.index(case['repeated'])
		only = ['free', case.get('concurrency'), case['workers']] if case['mode'] == 'repeated-free-running' else (list(case['order']), case['pre_completed'], 'executor')
		return t_repeated(pi, only=only).violations[:1]
	if case['mode'] == 'empty-list':
		return [v for v in t_sequential(4).violations if v['case'].get('mode') == 'empty-list' and v['case'].get('kw') == case.get('kw')][:1]
	if case['mode'] == 'sequential' or case['mode'] not in ('threads', 'processes', 'executor'):
		return t_sequential(case['n']).violations
	with fixtures.workdir('c13r') as d:
		files = make_files(d, case['n'], case['fault'], case['faultkind'])
		expected = [calc_file_signature(ks, f) for f in files] if case['fault'] is None else None
		run_one(sh, ks, files, expected, case['mode'], case['workers'], tuple(case['order']), case['pre_completed'], case['fault'], case['faultkind'])
	return sh.violations


MANIFEST = dict(
	engine='E-sched',
	technique='exhaustive exploration of all task-completion orders of a pool model, every trace replayed on the real Thread/ProcessPoolExecutor through gated workers',
	text='All completion orders allowed by the pool model (n=4 files, thorough 5; w in {1,2,n} workers; p pre-completed futures; threads, processes, caller-supplied '
	     'executor; an unreadable file at every position) are forced on the real calc_file_signatures by a gate controller that validates the model against '
	     'the implementation at every step; the result must be the per-file signatures in file order, or the call must raise when a file is unreadable.  Further families: file lists with '
	     'repeated entries, call histories (valid / failing calls, changes of working directory with relative names, reused executors), two overlapping calls '
	     'with different parameters (deterministic gate), worker bodies interleaved at Python-line granularity under pool semantics.',
	note='FIFO dispatch validated per step; fork start method; pools the library keeps alive are ended by the harness after each run (not judged).',
)
