"""C03 - default classification follows the closest genome's lineage and thresholds.

Seam: gambit.query.get_result_item(db, QueryParams(), dists, input) on transient ORM taxonomies (db = object with .genomes).
Alphabet: every forest n<=4 (5) x thresholds per taxon in {none, 1/4, 0.3, 1/2} (n<=3) / {none, 1/4, 1/2} (n>=4) x three report-flag
patterns + (separately) every report-flag vector x every taxon for the user-facing taxon x every ordered placement of g<=2 (3) genomes
x every distance vector over {0, 1/4, 0.3f, 1/2, 3/4, 1} (float32) - includes distances exactly on a threshold, 0.3f just above the
double 0.3, ties between genomes.
Oracle: refmodel (first lineage taxon with threshold >= d; next = nearest threshold-bearing below; first reportable at or above).
"""
import itertools
import os
from mc.core import Shard
from mc import refmodel as R
from mc import taxo
import numpy as np

ID = 'C03'
LEVEL = 'exploration'
RULE = ('every (forest, thresholds, report pattern, ordered genome placement, distance vector) within the bounds; non-trivial = the closest '
        "genome's lineage holds >=2 taxa and >=1 threshold (a walk up the lineage is needed); cases enumerated once each")
ASSUMPTIONS = [
	'all forest shapes only up to 4 (quick) / 5 (thorough) taxa and 2 / 3 reference genomes; deeper taxonomies only as single lineages of depth 6..8 (10)',
	'distances and thresholds compared as exact binary values (NumPy 1.26 scalar semantics: float32 distance vs double threshold)',
]
F32 = np.float32
DISTS = [0.0, 0.25, float(F32(0.3)), 0.5, 0.75, 1.0]
THR3 = [None, 0.25, 0.5]
THR4 = [None, 0.0, 0.25, 0.3, 0.5]       # 0.0: a threshold that is falsy but present (identical genomes only)


def plan(tier, seed):
	tasks = []
	if tier == 'quick':
		cfgs = [(1, 2, 4), (2, 2, 4), (3, 2, 4), (4, 2, 3)]
	else:
		cfgs = [(1, 3, 4), (2, 3, 4), (3, 3, 4), (4, 3, 3), (4, 2, 4), (5, 2, 3)]
	for n, g, nthr in cfgs:
		nsh = {1: 1, 2: 1, 3: 8}.get(n, 32 if tier == 'quick' else 64)
		for s in range(nsh):
			tasks.append(('t_classify', dict(n=n, gmax=g, nthr=nthr, shard=s, nshards=nsh)))
	for L in ((6, 7, 8) if tier == 'quick' else (6, 7, 8, 9, 10)):
		for part in range(4):
			tasks.append(('t_chains', dict(L=L, part=part, nparts=4)))
	for L in ((31, 32, 33, 34, 40, 65, 130) if tier == 'quick' else (31, 32, 33, 34, 35, 40, 63, 64, 65, 66, 100, 127, 128, 129, 130, 257, 600)):
		tasks.append(('t_very_deep', dict(L=L)))
	for start in range(len(taxo.WORLDS)):
		tasks.append(('t_persisted', dict(start=start, depth=3 if tier == 'quick' else 4)))
	tasks.append(('t_report', dict(N=5 if tier == 'quick' else 6)))
	for given_as in ('float64', 'list', 'longdouble'):
		tasks.append(('t_wide_distances', dict(given_as=given_as, N=3 if tier == 'quick' else 4)))
	tasks.append(('t_monotone', dict(N=4 if tier == 'quick' else 5)))
	return tasks


_LAST = {}


def check_item(sh, parent, thr, report, taxa, placement, dists, genomes=None, stats=True, given_as='float32'):
	from gambit.query import get_result_item, QueryParams, QueryInput
	prev = _LAST.get(id(taxa[0]))
	first = _LAST.get(('first', id(taxa[0])))
	me = dict(thr=list(thr), report=list(report), placement=list(placement), dists=list(dists))
	if first is None:
		_LAST.clear()
		_LAST[('first', id(taxa[0]))] = me
	_LAST[id(taxa[0])] = me
	if genomes is None:
		genomes = taxo.make_genomes(taxa, placement)
	darr = np.array(dists, dtype=F32) if given_as == 'float32' else np.array(dists, dtype=np.float64) if given_as == 'float64' else np.array(dists, dtype=np.longdouble) if given_as == 'longdouble' else list(dists)
	item = get_result_item(taxo.fake_db(genomes), QueryParams(), darr, QueryInput('q'))
	r = item.classifier_result
	sh.evals += 1
	case = dict(parent=list(parent), thr=list(thr), report=list(report), placement=list(placement), dists=list(dists))
	if given_as != 'float32':
		case['distances_given_as'] = given_as
	# earlier calls on the SAME taxon objects with other thresholds / flags (state remembered per object would show; needed to replay)
	hist = [c for c in (first, prev) if c is not None and (c['thr'] != list(thr) or c['report'] != list(report))]
	if hist:
		case['earlier_calls_on_the_same_taxon_objects'] = hist[:1] + [c for c in hist[1:] if c != hist[0]]
	dmin = min(dists)
	ci = [i for i, g in enumerate(genomes) if g is r.closest_match.genome]
	if len(ci) != 1 or dists[ci[0]] != dmin or float(r.closest_match.distance) != dmin:
		sh.violation('closest', case, dict(min=dmin), dict(index=ci, distance=float(r.closest_match.distance)))
		return
	gt = placement[ci[0]]
	exp_pred = R.ref_matching_taxon(parent, thr, gt, dmin)
	pred = taxo.idx(taxa, r.predicted_taxon)
	if pred != exp_pred or not r.success:
		sh.violation('prediction', case, dict(pred=exp_pred), dict(pred=pred, success=r.success))
		return
	if exp_pred is None:
		if r.primary_match is not None:
			sh.violation('primary', case, None, 'primary match without prediction')
			return
	else:
		pm = r.primary_match
		if pm is None or pm.genome is not r.closest_match.genome or float(pm.distance) != dmin:
			sh.violation('primary', case, 'closest match', None if pm is None else float(pm.distance))
			return
	exp_next = R.ref_next_taxon(parent, thr, gt, dmin)
	nxt = taxo.idx(taxa, r.next_taxon)
	if nxt != exp_next:
		own_thresholdless = thr[gt] is None
		sh.violation('next', case, dict(next=exp_next, pred=exp_pred), dict(next=nxt))
		return
	exp_rep = None if exp_pred is None else R.ref_report_taxon(parent, report, exp_pred)
	rep = taxo.idx(taxa, item.report_taxon)
	if rep != exp_rep:
		sh.violation('report', case, dict(report=exp_rep), dict(report=rep))
		return
	if stats:
		lin = R.lineage(parent, gt)
		if len(lin) >= 2 and any(thr[t] is not None for t in lin):
			sh.nontrivial += 1
		if exp_pred is None:
			sh.count('no_prediction')
		elif exp_pred == gt:
			sh.count('prediction_is_own_taxon')
		elif thr[gt] is None:
			sh.count('prediction_above_thresholdless_own_taxon')
		if exp_pred is not None and thr[exp_pred] == dmin:
			sh.count('distance_equals_threshold')
		if exp_pred is not None and exp_rep != exp_pred:
			sh.count('unreportable_prediction')
		if sum(1 for d in dists if d == dmin) > 1:
			sh.count('tie_for_closest')
		# non-monotone thresholds along the lineage
		b = [thr[t] for t in lin if thr[t] is not None]
		if any(b[i] > b[i + 1] for i in range(len(b) - 1)):
			sh.count('non_monotone_thresholds')
	sh.outcome([exp_pred, exp_next, exp_rep])


def report_patterns(n):
	return [tuple([True] * n), tuple([False] * n), tuple(i % 2 == 0 for i in range(n)), tuple(i % 2 == 1 for i in range(n))]


def t_classify(n, gmax, nthr, shard, nshards):
	sh = Shard()
	tvals = THR3 if nthr == 3 else THR4
	ci = 0
	for parent in R.forests(n):
		taxa = taxo.build_taxa(parent)
		for thr in itertools.product(tvals, repeat=n):
			ci += 1
			if ci % nshards != shard:
				continue
			for report in report_patterns(n):
				taxo.set_attrs(taxa, thr=thr, report=report)
				for g in range(1, gmax + 1):
					for placement in itertools.product(range(n), repeat=g):
						genomes = taxo.make_genomes(taxa, placement)
						for dists in itertools.product(DISTS, repeat=g):
							check_item(sh, parent, thr, report, taxa, placement, dists, genomes)
	sh.sample(dict(family='get_result_item', parent=list(parent), thr=list(thr), report=list(report), placement=list(placement), dists=list(dists)))
	return sh


def t_chains(L, part, nparts):
	"""Deep single lineages (depth 6..8, thorough 10): every threshold assignment over {none, 1/4, 1/2} (first L-? levels) x genome on the leaf or on
	a middle taxon x every distance - a walk that stops after a fixed number of ancestors, or assumes monotone thresholds, shows here."""
	sh = Shard()
	parent = tuple([None] + list(range(L - 1)))      # taxon 0 is the root, L-1 the leaf
	taxa = taxo.build_taxa(parent)
	ci = 0
	free = min(L, 8)
	for thr_head in itertools.product(THR3, repeat=free):
		ci += 1
		if ci % nparts != part:
			continue
		thr = tuple([None] * (L - free)) + thr_head if L > free else thr_head
		for report in (tuple([True] * L), tuple(i % 3 == 0 for i in range(L))):
			taxo.set_attrs(taxa, thr=thr, report=report)
			for placement in ((L - 1,), (L // 2,), (L - 1, L // 2)):
				genomes = taxo.make_genomes(taxa, placement)
				for dists in itertools.product([0.0, 0.25, float(F32(0.3)), 0.5, 0.75], repeat=len(placement)):
					check_item(sh, parent, thr, report, taxa, placement, dists, genomes)
	sh.count('deep_lineage_cases', sh.evals)
	sh.sample(dict(family='chains', depth=L, thr=list(thr), placement=list(placement), dists=list(dists)))
	return sh


def t_very_deep(L):
	"""Lineages of 31..600 levels (NCBI lineages with unranked clades are this deep): the only threshold-bearing / reportable taxon sits at each
	level in turn, or at two levels out of a boundary set; genome on the leaf, in the middle, or both; every distance below / at / above."""
	sh = Shard()
	parent = tuple([None] + list(range(L - 1)))      # taxon 0 is the root, L-1 the leaf
	taxa = taxo.build_taxa(parent)
	levels = list(range(L)) if L <= 130 else sorted(set(list(range(0, 40)) + list(range(L - 70, L)) + list(range(40, L - 70, 17))))
	bset = sorted({0, 1, 2, L // 2, L - 2, L - 1} | {x for x in range(L - 36, L - 28) if x >= 0})
	thrs = []
	for j in levels:
		t = [None] * L
		t[j] = 0.5
		thrs.append(tuple(t))
	for j1, j2 in itertools.combinations(bset, 2):
		t = [None] * L
		t[j1], t[j2] = 0.5, 0.25
		thrs.append(tuple(t))
		t = [None] * L
		t[j1], t[j2] = 0.25, 0.5              # non-monotone: the deeper taxon has the wider threshold
		thrs.append(tuple(t))
	reports = [tuple([True] * L), tuple(i == 0 for i in range(L)), tuple(i % 33 == 1 for i in range(L))]
	for thr in thrs:
		for report in reports:
			taxo.set_attrs(taxa, thr=thr, report=report)
			for placement in ((L - 1,), (L // 2,), (L - 1, L // 2)):
				genomes = taxo.make_genomes(taxa, placement)
				for dists in itertools.product([0.0, 0.25, 0.5, 0.75], repeat=len(placement)):
					check_item(sh, parent, thr, report, taxa, placement, dists, genomes, stats=False)
	sh.nontrivial += sh.evals
	sh.count('very_deep_lineage_cases', sh.evals)
	sh.sample(dict(family='very_deep', depth=L, bearing_levels=[i for i, t in enumerate(thr) if t is not None], placement=list(placement), dists=list(dists)))
	return sh


def t_persisted(start, depth, only=None):
	"""Histories over persisted databases that share primary keys / keys / names of their taxa but differ in shape, thresholds and report flags:
	every sequence (to the depth bound, starting with database `start`) of {open database j and classify all distance vectors; edit thresholds of
	the currently loaded objects and classify again} in ONE process.  State remembered about a taxon across databases, sessions or edits shows as
	a disagreement with the model of the database actually being queried."""
	from mc import fixtures
	import os
	import gambit.classify, gambit.query, gambit.db
	fixtures.reset_gambit_globals()
	sh = Shard()
	nw = len(taxo.WORLDS)
	with fixtures.workdir('c03p') as d:
		paths = []
		for j, w in enumerate(taxo.WORLDS):
			p = os.path.join(d, f'w{j}.gdb')
			taxo.write_world(p, w)
			paths.append(p)
		events = [('open', j) for j in range(nw)] + [('edit', 0), ('edit', 1)]
		dvecs = list(itertools.product(DISTS, repeat=3))
		for hist in ([None] if only else itertools.product(events, repeat=depth - 1)):
			hist = tuple(tuple(h) for h in only) if only else (('open', start),) + hist
			fixtures.reset_gambit_globals()       # every history starts from the state of a freshly imported library
			cur = None
			sessions = []
			try:
				for step, (op, arg) in enumerate(hist):
					if op == 'open':
						w = taxo.WORLDS[arg]
						session, taxa, genomes = taxo.open_world(paths[arg])
						sessions.append(session)
						cur = dict(parent=w['parent'], thr=list(w['thr']), report=w['report'], placement=w['placement'], taxa=taxa, genomes=genomes)
					else:
						# edit the thresholds of the loaded objects (in memory; the session is read-only): rotate / raise them
						thr = cur['thr']
						thr = thr[1:] + thr[:1] if arg == 0 else [None if t is None else min(1.0, t + 0.25) for t in thr]
						for t_obj, v in zip(cur['taxa'], thr):
							t_obj.distance_threshold = v
						cur['thr'] = thr
					for dists in dvecs:
						before, kept = sh.nviol, len(sh.violations)
						check_item(sh, cur['parent'], tuple(cur['thr']), cur['report'], cur['taxa'], cur['placement'], dists, cur['genomes'], stats=False)
						if sh.nviol != before:
							if len(sh.violations) > kept:
								sh.violations[-1]['case']['history'] = [list(h) for h in hist[:step + 1]]
								sh.violations[-1]['kind'] = 'persisted-' + sh.violations[-1]['kind']
							raise StopIteration
					sh.count('persisted_steps')
					if step:
						sh.nontrivial += 1
			except StopIteration:
				pass
			finally:
				for s_ in sessions:
					s_.close()
					s_.get_bind().dispose()
	sh.sample(dict(family='persisted', history=[list(h) for h in hist], worlds=len(taxo.WORLDS)))
	return sh


def t_report(N):
	"""user-facing taxon: every forest x every report-flag vector x every start taxon."""
	from gambit.db import reportable_taxon
	sh = Shard()
	for n in range(1, N + 1):
		for parent in R.forests(n):
			taxa = taxo.build_taxa(parent)
			for report in itertools.product([False, True], repeat=n):
				taxo.set_attrs(taxa, report=report)
				for t in range(n):
					got = taxo.idx(taxa, reportable_taxon(taxa[t]))
					sh.evals += 1
					exp = R.ref_report_taxon(parent, report, t)
					if got != exp:
						sh.violation('reportable', dict(parent=list(parent), report=list(report), taxon=t), exp, got)
					if exp is not None and exp != t:
						sh.nontrivial += 1
	if reportable_taxon(None) is not None:
		sh.violation('reportable', dict(parent=[], report=[], taxon=None), None, 'not None')
	# persisted lineages that CROSS genome sets (a custom set whose taxa hang below the taxa of a backbone set in the same file): the walk
	# follows parents, whatever set they belong to
	from sqlalchemy import create_engine
	from sqlalchemy.orm import sessionmaker
	from gambit.db.models import Base, ReferenceGenomeSet, Taxon
	from mc import fixtures
	with fixtures.workdir('c03x') as d:
		for cut in (1, 2, 3):
			for report in itertools.product([False, True], repeat=4):
				path = os.path.join(d, f'x{cut}-{"".join(str(int(r)) for r in report)}.gdb')
				engine = create_engine(f'sqlite:///{path}')
				Base.metadata.create_all(engine)
				s = sessionmaker(engine)()
				sets = [ReferenceGenomeSet(key='backbone', version='1', name='backbone'), ReferenceGenomeSet(key='custom', version='1', name='custom')]
				s.add_all(sets)
				objs = []
				for i in range(4):
					objs.append(Taxon(key=f't{i}', name=f'T{i}', report=report[i], genome_set=sets[0 if i < cut else 1], parent=objs[i - 1] if i else None))
				s.add_all(objs)
				s.commit()
				s.close()
				s = sessionmaker(engine)()
				loaded = {t.key: t for t in s.query(Taxon).all()}
				for t in range(4):
					got = reportable_taxon(loaded[f't{t}'])
					sh.evals += 1
					exp = R.ref_report_taxon((None, 0, 1, 2), report, t)
					if (None if got is None else int(got.key[1:])) != exp:
						sh.violation('reportable', dict(parent=[None, 0, 1, 2], report=list(report), taxon=t, persisted=True, taxa_in_backbone_set=cut), exp, None if got is None else got.key)
					else:
						sh.count('lineages_crossing_genome_sets')
				s.close()
				engine.dispose()
	sh.sample(dict(family='reportable_taxon', parent=list(parent), report=list(report), taxon=t))
	return sh


def t_wide_distances(given_as, N):
	"""Distance vectors in double precision (arrays, plain lists, long double) - the classification functions are public and take any
	array-like: values ON a threshold, one unit in the last place of a double above / below it, and 1e-9 away (all closer to the threshold than
	single precision can tell).  Every forest up to N taxa, thresholds over {none, 0.25, 0.3, 0.5}."""
	sh = Shard()
	import math
	pts = []
	for t in (0.25, 0.3, 0.5):
		pts += [t, math.nextafter(t, 1.0), math.nextafter(t, 0.0), t + 1e-9, t - 1e-9]
	pts = sorted(set(pts + [0.0, 0.75, 1.0]))
	for n in range(1, N + 1):
		for parent in R.forests(n):
			taxa = taxo.build_taxa(parent)
			for thr in itertools.product([None, 0.25, 0.3, 0.5], repeat=n):
				if all(t is None for t in thr):
					continue
				report = tuple([True] * n)
				taxo.set_attrs(taxa, thr=thr, report=report)
				for g in range(n):
					genomes = taxo.make_genomes(taxa, (g,))
					for d in pts:
						check_item(sh, parent, thr, report, taxa, (g,), (d,), genomes, stats=False, given_as=given_as)
				if n >= 2:
					genomes = taxo.make_genomes(taxa, (0, n - 1))
					for d1, d2 in itertools.product(pts[::2], repeat=2):
						check_item(sh, parent, thr, report, taxa, (0, n - 1), (d1, d2), genomes, stats=False, given_as=given_as)
	sh.nontrivial += sh.evals
	sh.count('double_precision_distance_cases', sh.evals)
	sh.sample(dict(family='wide-distances', given_as=given_as, points=pts[:8]))
	return sh


def t_monotone(N):
	"""As stated: for the same closest genome and d1 < d2, prediction(d2) is prediction(d1), one of its ancestors, or none -
	checked on the real outputs, without the model."""
	from gambit.classify import classify
	sh = Shard()
	ds = sorted(DISTS + [float(F32(0.1)), float(F32(1 / 3)), float(F32(0.5000001))])
	for n in range(1, N + 1):
		for parent in R.forests(n):
			taxa = taxo.build_taxa(parent)
			for thr in itertools.product(THR4 + [0.1] if n <= 3 else THR3, repeat=n):
				taxo.set_attrs(taxa, thr=thr)
				for t in range(n):
					genomes = taxo.make_genomes(taxa, [t])
					preds = []
					for d in ds:
						r = classify(genomes, np.array([d], dtype=F32))
						sh.evals += 1
						preds.append(taxo.idx(taxa, r.predicted_taxon))
					for a in range(len(ds)):
						for b in range(a + 1, len(ds)):
							pa, pb = preds[a], preds[b]
							ok = pb is None or (pa is not None and pb in R.lineage(parent, pa))
							if not ok:
								sh.violation('monotone', dict(parent=list(parent), thr=list(thr), taxon=t, d1=ds[a], d2=ds[b]), 'coarser or none', dict(p1=pa, p2=pb))
					if len(set(preds)) >= 3:
						sh.nontrivial += 1
						sh.count('three_level_coarsening')
	sh.sample(dict(family='monotone', parent=list(parent), thr=list(thr), taxon=t, preds=preds))
	return sh


def finalize(agg, tier):
	for c in ('no_prediction', 'prediction_is_own_taxon', 'prediction_above_thresholdless_own_taxon', 'distance_equals_threshold',
	          'unreportable_prediction', 'tie_for_closest', 'non_monotone_thresholds', 'three_level_coarsening', 'deep_lineage_cases', 'persisted_steps'):
		agg.require(c, 100)


def replay(case, kind=None):
	sh = Shard()
	if 'history' in case:
		return t_persisted(case['history'][0][1], len(case['history']), only=case['history']).violations[:1]
	parent = tuple(case['parent'])
	taxa = taxo.build_taxa(parent)
	if kind == 'reportable' and case.get('persisted'):
		return [v for v in t_report(1).violations if v['case'] == case][:1]
	if kind == 'reportable':
		from gambit.db import reportable_taxon
		taxo.set_attrs(taxa, report=case['report'])
		got = taxo.idx(taxa, reportable_taxon(taxa[case['taxon']]))
		if got != R.ref_report_taxon(parent, case['report'], case['taxon']):
			sh.violation(kind, case)
	elif kind == 'monotone':
		from gambit.classify import classify
		taxo.set_attrs(taxa, thr=case['thr'])
		g = taxo.make_genomes(taxa, [case['taxon']])
		pa = taxo.idx(taxa, classify(g, np.array([case['d1']], dtype=F32)).predicted_taxon)
		pb = taxo.idx(taxa, classify(g, np.array([case['d2']], dtype=F32)).predicted_taxon)
		if not (pb is None or (pa is not None and pb in R.lineage(parent, pa))):
			sh.violation(kind, case)
	else:
		for pc in case.get('earlier_calls_on_the_same_taxon_objects') or []:
			taxo.set_attrs(taxa, thr=pc['thr'], report=pc['report'])
			check_item(Shard(), parent, tuple(pc['thr']), tuple(pc['report']), taxa, tuple(pc['placement']), tuple(pc['dists']))
		taxo.set_attrs(taxa, thr=case['thr'], report=case['report'])
		check_item(sh, parent, tuple(case['thr']), tuple(case['report']), taxa, tuple(case['placement']), tuple(case['dists']), given_as=case.get('distances_given_as', 'float32'))
	return sh.violations


MANIFEST = dict(
	engine='E-enum',
	technique='bounded exhaustive enumeration of taxonomy forests x thresholds x genome placements x distance vectors on the real classifier vs. lineage model',
	text='Every forest with <=4 (thorough 5) taxa, every threshold assignment (incl. gaps, non-monotone, distance exactly on / just above a threshold), '
	     'ordered placements of <=2 (3) genomes on any taxa and every distance vector is classified by the real get_result_item; closest match, '
	     'prediction, primary match, next taxon, user-facing taxon and monotonicity are compared with a model written from the statement.',
	note='forest/genome-count bounds; float semantics of NumPy 1.26; transient ORM objects (no database) for the exhaustive part.',
)
