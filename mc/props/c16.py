"""C16 - the distance-matrix command labels and fills every cell correctly.

Through the real CLI: 3 ways of supplying queries (files, list file + base directory, signature file) x 5 ways of supplying references (files, list
file + directory, signature file, the database's signatures, --square; plus reference files / list entries that carry exactly the QUERY labels but
hold different genomes) x -k/-p in {none, explicit} x -c in {unset, 1, 2} x ordered selections of the
genomes.  Quick: every supply combination with a reduced selection set, all <=2-element ordered selections for the files x files combination,
options as deviations; thorough: all selections (<=3 elements, with one repetition) for every combination x all options.
Oracle: header = reference labels in order; each row = query label + decimal rounding (4 places, computed through Decimal on the exact binary value)
of the library distance between the library signatures of the two genomes; --square symmetric, 0.0000 diagonal, equal to supplying the same
genomes on both sides.
"""
import itertools
import os
from mc.core import Shard
from mc import fixtures, clifix
from mc import refmodel as R
import numpy as np

ID = 'C16'
LEVEL = 'exploration'
RULE = ('every (query supply, reference supply, option vector, ordered selection) in the stated sets; one case = one CLI invocation whose whole output file is '
        'compared; non-trivial = output with >=2 cells holding different values, or an order / label that differs from the on-disk default order')
ASSUMPTIONS = ['3 query and 3 reference genomes (one identical pair, one overlapping, one disjoint-ish); parameter sets: default 11/ATGAC, explicit 6/AT']

QG = ['g1', 'g2', 'g4']
QX = ['E.faecalis_V583', 'P.fa.lciparum.fasta_x', 'empty1']      # names containing their own extension text; a genome without k-mers
RG = [0, 2, 5]
QSUP = ['files', 'list', 'sig']
RSUP = ['files', 'list', 'sig', 'db', 'square', 'files-samelabels', 'list-samelabels']


def selections(items, maxlen, with_repeat):
	out = []
	for m in range(1, maxlen + 1):
		out += [list(t) for t in itertools.permutations(items, m)]
	if with_repeat:
		out.append([items[0], items[1], items[0]])
	return out


def cases(tier):
	out = []
	if tier == 'quick':
		qs_small = [[QG[0]], [QG[1], QG[0]], [QG[2], QG[1]]]
		rs_small = [[RG[0]], [RG[1], RG[0]], [RG[2], RG[0]]]
		for qsup in QSUP:
			for rsup in RSUP:
				qsel = selections(QG, 2, False) if (qsup, rsup) == ('files', 'files') else qs_small
				rsel = selections(RG, 2, False) if (qsup, rsup) == ('files', 'files') else rs_small
				for a in (qsel if qsup != 'sig' else [None]):
					for b in (rsel if rsup in ('files', 'list') else [None]):
						out.append((qsup, rsup, a, b, 'none', None))
				if rsup.endswith('samelabels'):
					continue
				# options as deviations on one selection
				a0 = None if qsup == 'sig' else [QG[1], QG[0]]
				b0 = [RG[2], RG[0]] if rsup in ('files', 'list') else None
				for kp, c in (('explicit', None), ('none', 1), ('none', 2), ('explicit', 2), ('explicit17', None)):
					if kp == 'explicit17' and (qsup == 'sig' or rsup in ('sig', 'db')):
						continue
					out.append((qsup, rsup, a0, b0, kp, c))
				if qsup != 'sig':
					out.append((qsup, rsup, [QX[0], QG[0], QX[1]], [RG[0]] if rsup in ('files', 'list') else None, 'none', None))
					out.append((qsup, rsup, [QX[2], QX[0]], [RG[1], RG[0]] if rsup in ('files', 'list') else None, 'explicit', None))
	else:
		for qsup in QSUP:
			for rsup in RSUP:
				for a in (selections(QG, 3, True) if qsup != 'sig' else [None]):
					for b in (selections(RG, 2, True) if rsup in ('files', 'list') else [None]):
						if rsup.endswith('samelabels') and a is not None and len(a) > 2:
							continue
						for kp in ('none', 'explicit'):
							for c in (None, 1, 2):
								if (kp, c) != ('none', None) and (a is not None and len(a) == 3) and (b is not None and len(b) > 1):
									continue      # options crossed with the largest selections only through the smaller ones
								out.append((qsup, rsup, a, b, kp, c))
	return out


def plan(tier, seed):
	nsh = 16 if tier == 'quick' else 48
	tasks = [('t_cli', dict(tier=tier, shard=s, nshards=nsh)) for s in range(nsh)]
	for u in ((32, 160, 800, 1250) if tier == 'quick' else (32, 160, 800, 1250, 4000, 20000)):
		tasks.append(('t_ties', dict(u=u)))
	return tasks


ALLSEGS = dict(clifix.QUERIES, **clifix.EXTRA_QUERIES)
ALLFILES = dict(clifix.QFILES, **clifix.EXTRA_QFILES)


def ALLQ(fx):
	return dict(fx.q, **fx.qx)


def run_case(sh, fx, d, case):
	qsup, rsup, qsel, rsel, kp, cores = case
	out = os.path.join(d, 'dist.csv')
	if os.path.exists(out):
		os.unlink(out)
	cd = dict(qsup=qsup, rsup=rsup, qsel=qsel, rsel=rsel, kp=kp, cores=cores)
	args = ['-d', fx.dbdir, 'dist', '--no-progress', '-o', out]
	pname = 'DEF'
	if kp == 'explicit':
		args += ['-k', '6', '-p', 'at' if qsup == 'list' else 'AT']        # a prefix in lower case is the same prefix
		pname = 'P0'
	elif kp == 'explicit17':
		args += ['-k', '17', '-p', 'aT']          # indices need more than 32 bits (prefix in mixed case)
		pname = 'K17'
	if cores is not None:
		args += ['-c', str(cores)]
	# queries
	if qsup == 'files':
		for l in qsel:
			args += ['-q', ALLQ(fx)[l]]
		qlabels, qsegs = list(qsel), [ALLSEGS[l] for l in qsel]
	elif qsup == 'list':
		lf = clifix.write_listfile(os.path.join(d, 'ql.txt'), [ALLFILES[l] for l in qsel])
		args += ['--ql', lf, '--qdir', os.path.join(fx.d, 'q')]
		qlabels, qsegs = list(qsel), [ALLSEGS[l] for l in qsel]
	else:
		args += ['--qs', fx.qsig['P0']]
		pname = 'P0'
		qlabels, qsegs = list(fx.qsig_ids), list(clifix.QUERIES.values())
	# references
	if rsup == 'files':
		for i in rsel:
			args += ['-r', fx.r[i]]
		rlabels, rsegs = [f'ref{i}' for i in rsel], [clifix.REFS[i] for i in rsel]
	elif rsup == 'list':
		lf = clifix.write_listfile(os.path.join(d, 'rl.txt'), [f'ref{i}.fasta' for i in rsel])
		args += ['--rl', lf, '--rdir', os.path.join(fx.d, 'r')]
		rlabels, rsegs = [f'ref{i}' for i in rsel], [clifix.REFS[i] for i in rsel]
	elif rsup in ('files-samelabels', 'list-samelabels'):
		# the references carry exactly the labels of the queries (same file names in another directory) but are different genomes
		rq = [l for l in (qsel or []) if l in clifix.QUERIES] or [QG[0], QG[1]]
		if rsup == 'files-samelabels':
			for l in rq:
				args += ['-r', fx.rsame[l][0]]
		else:
			lf = clifix.write_listfile(os.path.join(d, 'rl.txt'), [clifix.QFILES[l] for l in rq])
			args += ['--rl', lf, '--rdir', os.path.join(fx.d, 'rsame')]
		rlabels, rsegs = list(rq), [clifix.REFS[fx.rsame[l][1]] for l in rq]
	elif rsup == 'sig':
		args += ['--rs', fx.rsig['P0']]
		pname = 'P0'
		rlabels, rsegs = list(fx.rsig_ids), list(clifix.REFS)
	elif rsup == 'db':
		args += ['--use-db']
		pname = 'P0'
		rlabels = list(fx.db_sig_ids)
		rsegs = [clifix.REFS[i] if i != 'x' else [3, 7] for i in [2, 0, 5, 'x', 1, 4, 3]]
	else:
		args += ['--square']
		rlabels, rsegs = qlabels, qsegs
	if qsup == 'sig' and kp == 'none' and rsup in ('files', 'list', 'square', 'files-samelabels', 'list-samelabels'):
		pname = 'P0'
	code, stdout, exc, err = fixtures.run_cli(args)
	sh.evals += 1
	if code != 0 or not os.path.exists(out):
		sh.violation('dist-failed', cd, 'exit 0', dict(exit=code, exc=repr(exc), out=stdout[-400:]))
		return
	cols, rows, cells = clifix.parse_dmat(out)
	exp = clifix.expected_cells(pname, qsegs, rsegs)
	if cols != rlabels:
		sh.violation('header-labels', cd, rlabels, cols)
		return
	if rows != qlabels:
		sh.violation('row-labels', cd, qlabels, rows)
		return
	if cells != exp:
		sh.violation('cells', cd, exp, cells)
		return
	if rsup == 'square':
		n = len(rows)
		if any(cells[i][i] != '0.0000' for i in range(n)) or any(cells[i][j] != cells[j][i] for i in range(n) for j in range(n)):
			sh.violation('square-not-symmetric-zero-diagonal', cd, None, cells)
			return
		sh.count('square_outputs')
	flat = [c for r in cells for c in r]
	if len(set(flat)) >= 2 or (qsel is not None and qsel != sorted(qsel)) or (rsel is not None and rsel != sorted(rsel)):
		sh.nontrivial += 1
	if (qsel is not None and qsel != sorted(qsel)) or (rsel is not None and rsel != sorted(rsel)):
		sh.count('selections_out_of_default_order')
	if '0.0000' in flat and rsup != 'square':
		sh.count('outputs_with_identical_pair')
	sh.outcome([cols, rows, cells])


def t_cli(tier, shard, nshards):
	sh = Shard()
	with fixtures.workdir('c16') as d:
		fx = clifix.build(os.path.join(d, 'fx'), params=['P0'], pathlike_sig_ids=True)
		for i, case in enumerate(cases(tier)):
			if i % nshards != shard:
				continue
			run_case(sh, fx, d, case)
		# --square equals supplying the same genomes as both queries and references (differential, no model)
		if shard == 0:
			for sel in ([QG[0], QG[1]], [QG[2], QG[0], QG[1]]):
				outs = []
				for mode in ('square', 'both'):
					out = os.path.join(d, f'sq-{mode}.csv')
					args = ['dist', '--no-progress', '-o', out]
					for l in sel:
						args += ['-q', fx.q[l]]
					if mode == 'square':
						args.append('--square')
					else:
						for l in sel:
							args += ['-r', fx.q[l]]
					code, stdout, exc, err = fixtures.run_cli(args)
					sh.evals += 1
					outs.append(open(out).read() if code == 0 and os.path.exists(out) else f'exit {code}')
				if outs[0] != outs[1]:
					sh.violation('square-differs-from-both-sides', dict(qsup='files', rsup='square-vs-both', qsel=sel, rsel=sel, kp='none', cores=None), outs[1], outs[0])
	sh.sample(dict(last_case=dict(qsup=case[0], rsup=case[1], qsel=case[2], rsel=case[3], kp=case[4], cores=case[5])))
	return sh


def finalize(agg, tier):
	agg.require('square_outputs', 3)
	agg.require('selections_out_of_default_order', 20)
	agg.require('outputs_with_identical_pair', 5)


def t_ties(u, only=None):
	"""Distances j/u for every j (thorough: every j for u <= 4000, every 5th for 20000) with u = 32, 160, 800, 1250, 4000, 20000: the reduced
	fractions whose decimal expansion sits exactly on (2^-5) or next to a rounding boundary of the fourth decimal.  One query holding u k-mers
	against references holding its last u-j; signature files as the channel; expected cell = the exact fraction rounded once to float32,
	then that binary value rounded to four decimals (decimal arithmetic)."""
	from fractions import Fraction
	from gambit.sigs.base import SignatureArray, AnnotatedSignatures, SignaturesMeta, dump_signatures
	from gambit.kmers import KmerSpec
	import struct
	sh = Shard()
	ks = KmerSpec(11, 'ATGAC')
	js = list(range(0, u + 1)) if u <= 4000 else list(range(0, u + 1, 5)) + list(range(1, u, 2))[:2000]
	base = np.arange(100, 100 + u, dtype='u4')
	with fixtures.workdir('c16t') as d:
		for lo in range(0, len(js), 1000):
			part = js[lo:lo + 1000]
			qp, rp, out = os.path.join(d, 'q.gs'), os.path.join(d, 'r.gs'), os.path.join(d, 'out.csv')
			for pth in (qp, rp, out):
				if os.path.exists(pth):
					os.unlink(pth)
			dump_signatures(qp, AnnotatedSignatures(SignatureArray([base], ks, dtype=np.dtype('u4')), ['q'], SignaturesMeta()))
			dump_signatures(rp, AnnotatedSignatures(SignatureArray([base[j:] for j in part], ks, dtype=np.dtype('u4')), [f'r{j}' for j in part], SignaturesMeta()))
			code, stdout, exc, err = fixtures.run_cli(['dist', '--no-progress', '--qs', qp, '--rs', rp, '-o', out])
			sh.evals += 1
			case = dict(ties=True, u=u, first_j=part[0])
			if code != 0:
				sh.violation('dist-failed', case, 'exit 0', dict(exit=code, exc=repr(exc), out=stdout[-300:]))
				continue
			cols, rows, cells = clifix.parse_dmat(out)
			if cols != [f'r{j}' for j in part] or rows != ['q']:
				sh.violation('header-labels', case, None, cols[:5])
				continue
			for j, cell in zip(part, cells[0]):
				sh.evals += 1
				f32 = struct.unpack('<f', struct.pack('<I', R.f32_bits_of_fraction(Fraction(j, u))))[0]
				exp = clifix.round4(f32)
				if cell != exp and float(cell) != float(exp) or len(cell.split('.')[-1]) > 4:
					sh.violation('cell-rounding', dict(ties=True, u=u, j=j, first_j=part[0]), exp, cell)
					break
				if (Fraction(j, u) * 20000).denominator == 1 and (Fraction(j, u) * 10000).denominator == 2:
					sh.count('cells_on_a_fifth_decimal_tie')
				sh.nontrivial += 1
	sh.sample(dict(family='ties', u=u, cells=len(js)))
	return sh


def replay(case, kind=None):
	sh = Shard()
	if case.get('ties'):
		return t_ties(case['u']).violations[:1]
	with fixtures.workdir('c16r') as d:
		fx = clifix.build(os.path.join(d, 'fx'), params=['P0'], pathlike_sig_ids=True)
		if case['rsup'] == 'square-vs-both':
			return [v for v in t_cli('quick', 0, 10 ** 9).violations if v['kind'] == 'square-differs-from-both-sides']
		run_case(sh, fx, d, (case['qsup'], case['rsup'], case['qsel'], case['rsel'], case['kp'], case['cores']))
	return sh.violations


MANIFEST = dict(
	engine='E-enum',
	technique='exhaustive enumeration of the 3x5 supply combinations x option vectors x ordered genome selections, each a real CLI invocation, vs. exact decimal rounding of library distances',
	text='Every way of supplying queries (files / list+dir / signature file) and references (files / list+dir / signature file / database / --square), with and '
	     'without explicit -k/-p, -c unset/1/2, and every ordered selection of genomes (quick: <=2 of 3, reduced for non-default supplies; thorough: all) is '
	     'run through the real dist command; header, row labels and every cell (4-decimal rounding of the exact float32 distance) are compared.',
	note='3x3 genomes; rounding oracle through Decimal; click CliRunner in-process.',
)
