"""C18 - using a reference database never modifies it.

E-bfs over histories.  Observed state after every event = (sha256 of the genome file, sha256 of the signature file, sorted directory listing with sizes
- catches -journal / -wal / -shm / temp files); for in-process library histories additionally the session's pending sets.
 * CLI alphabet (12 events incl. failing commands): every sequence to depth 2 (thorough 3) inside one interpreter (click CliRunner), the state checked
   after every event; plus every event and every ordered pair of distinct kinds... in a FRESH interpreter (subprocess) - no hidden in-process state.
   Every transition must be a self-loop: exactly one reachable on-disk state; a second state IS the violation and its history is the replay.
 * Library alphabet: asking for a WRITABLE session maker / opening and closing a writable session on the same file beforehand (nothing written); load; query(); ORM read; edit an attribute; add a Taxon; delete a genome; flush(); a query that would autoflush; commit() (must
   raise); rollback(); close(); drop references + gc; signatures.close().  Breadth-first over all histories to depth 4 (thorough 5), deduplicated on
   (disk state, abstract session state); every history is replayed on fresh real objects.  Invariants: bytes unchanged after every event; commit()
   raises; pending changes are still pending after flush / autoflush.
"""
import gc
import hashlib
import itertools
import json
import os
import subprocess
import sys
from mc.core import Shard, HarnessError
from mc import fixtures, clifix

ID = 'C18'
LEVEL = 'model_checking'
RULE = ('every CLI history to the depth bound (in-process) + every single event and pair in fresh interpreters; every library history to the depth bound, '
        'deduplicated on (disk state, abstract session state); states = distinct (disk, session) keys reached, transitions = events executed; non-trivial = '
        'history containing a command that opens the database files or an operation that makes the session dirty')
ASSUMPTIONS = [
	'CLI histories to depth 2 (quick) / 3 (thorough) over 12 events; library histories to depth 4 / 5 (first event: load) over 13 events',
	'dedup argument (CLI, fresh interpreters): with no state carried between processes the future of a history depends only on the on-disk state',
	'dedup argument (library): the abstract session state (loaded, counts of new/dirty/deleted objects, closed flags) determines which events are enabled and what '
	'they do to the files; object identities are irrelevant to the property',
	'file modification times are not part of the state (the statement is about bytes)',
]

CLI_EVENTS = ['query-files', 'query-sig', 'query-strict-archive', 'dist-use-db', 'info-db', 'info-db-json', 'info-db-ids', 'create-db-params', 'tree',
              'fail-mismatched-sig', 'fail-missing-input', 'fail-bad-option']


def disk_state(dbdir):
	out = []
	for name in sorted(os.listdir(dbdir)):
		p = os.path.join(dbdir, name)
		if os.path.isfile(p):
			with open(p, 'rb') as f:
				out.append((name, os.path.getsize(p), hashlib.sha256(f.read()).hexdigest()))
		else:
			out.append((name, -1, 'dir'))
	return tuple(out)


def make_wal(fx, flavour=True):
	if flavour == 'noindex':
		return make_old_schema(fx)
	return _make_wal(fx)


def make_old_schema(fx):
	"""A genome file as an older or hand-made schema would have it: without the secondary (non-unique) indexes."""
	import sqlite3
	for name in os.listdir(fx.dbdir):
		if name.endswith(('.gdb', '.db')):
			con = sqlite3.connect(os.path.join(fx.dbdir, name))
			idx = [r[0] for r in con.execute("SELECT name FROM sqlite_master WHERE type = 'index' AND sql IS NOT NULL").fetchall()]
			for i in idx:
				con.execute(f'DROP INDEX "{i}"')
			con.commit()
			con.execute('VACUUM')
			con.close()
			if not idx:
				raise HarnessError('the fixture database has no secondary index to drop')


def _make_wal(fx):
	"""Switch the genome file to SQLite's write-ahead-log journal mode (persistent in the file header), as a database built or last edited with
	PRAGMA journal_mode=WAL would be."""
	import sqlite3
	for name in os.listdir(fx.dbdir):
		if name.endswith(('.gdb', '.db')):
			con = sqlite3.connect(os.path.join(fx.dbdir, name))
			mode = con.execute('PRAGMA journal_mode=WAL').fetchall()
			con.close()
			if mode != [('wal',)]:
				raise HarnessError(f'could not switch {name} to WAL mode: {mode}')


def visible(s, wal):
	"""WAL mode: while a read connection is open an EMPTY -wal file and the -shm index sit next to the genome file; they hold no change and are
	gone when the connection is closed (then the comparison is strict).  A non-empty -wal file holds written frames and is a change."""
	if not wal:
		return s
	return tuple(x for x in s if not (x[0].endswith('-shm') or (x[0].endswith('-wal') and x[1] == 0)))


def cli_args(fx, d, ev):
	o = os.path.join(d, 'out.tmp')
	g = [fx.q['g1'], fx.q['g2']]
	return {
		'query-files': ['-d', fx.dbdir, 'query', '--no-progress', '-o', o] + g,
		'query-sig': ['-d', fx.dbdir, 'query', '--no-progress', '-o', o, '-s', fx.qsig['P0']],
		'query-strict-archive': ['-d', fx.dbdir, 'query', '--no-progress', '--strict', '-f', 'archive', '-o', o, '-c', '2'] + g,
		'dist-use-db': ['-d', fx.dbdir, 'dist', '--no-progress', '--use-db', '-o', o, '--qs', fx.qsig['P0']],
		'info-db': ['-d', fx.dbdir, 'signatures', 'info', '-d'],
		'info-db-json': ['-d', fx.dbdir, 'signatures', 'info', '-d', '--json', '--pretty'],
		'info-db-ids': ['-d', fx.dbdir, 'signatures', 'info', '-d', '--ids'],
		'create-db-params': ['-d', fx.dbdir, 'signatures', 'create', '--no-progress', '--db-params', '-o', os.path.join(d, 'created.gs')] + g,
		'tree': ['-d', fx.dbdir, 'tree', '--no-progress', '-s', os.path.join(fx.dbdir, 'ref.gs')],
		'fail-mismatched-sig': ['-d', fx.dbdir, 'query', '--no-progress', '-o', o, '-s', fx.qsig['P1']],
		'fail-missing-input': ['-d', fx.dbdir, 'query', '--no-progress', '-o', o, os.path.join(d, 'does-not-exist.fasta')],
		'fail-bad-option': ['-d', fx.dbdir, 'dist', '--no-progress', '--use-db', '--square', '-o', o, '--qs', fx.qsig['P0']],
	}[ev]


def plan(tier, seed):
	depth = 2 if tier == 'quick' else 3
	tasks = [('t_cli_histories', dict(depth=depth, first=e)) for e in range(len(CLI_EVENTS))]
	tasks += [('t_cli_fresh', dict(part=p, nparts=8, pairs=True)) for p in range(8)]
	# the same against a genome file in write-ahead-log journal mode
	tasks += [('t_cli_histories', dict(depth=depth, first=e, wal=True)) for e in range(len(CLI_EVENTS))]
	tasks += [('t_cli_fresh', dict(part=p, nparts=4, pairs=(tier != 'quick'), wal=True)) for p in range(4)]
	tasks += [('t_library', dict(depth=3 if tier == 'quick' else 4, part=p, nparts=11, wal=True)) for p in range(11)]
	# ... and on a genome file without its secondary indexes (older / hand-made schema)
	tasks += [('t_cli_fresh', dict(part=p, nparts=4, pairs=False, wal='noindex')) for p in range(4)]
	tasks += [('t_cli_histories', dict(depth=1 if tier == 'quick' else 2, first=e, wal='noindex')) for e in range(len(CLI_EVENTS))]
	tasks += [('t_library', dict(depth=2 if tier == 'quick' else 3, part=p, nparts=11, wal='noindex')) for p in range(0, 11, 5)]
	tasks += [('t_library', dict(depth=4 if tier == 'quick' else 5, part=p, nparts=11)) for p in range(11)]
	return tasks


def t_cli_histories(depth, first, wal=False):
	sh = Shard()
	extra = (dict(journal_mode='wal') if wal is True else dict(schema='no-secondary-indexes')) if wal else {}
	with fixtures.workdir('c18') as d:
		fx = clifix.build(os.path.join(d, 'fx'), params=['P0', 'P1'])
		if wal:
			make_wal(fx, wal)
		s0 = disk_state(fx.dbdir)
		states = {s0}
		expect_fail = {e for e in CLI_EVENTS if e.startswith('fail-')}
		for hist in itertools.product(range(len(CLI_EVENTS)), repeat=depth):
			if hist[0] != first:
				continue
			for step, ei in enumerate(hist):
				ev = CLI_EVENTS[ei]
				code, stdout, exc, err = fixtures.run_cli(cli_args(fx, d, ev))
				sh.evals += 1
				sh.transitions += 1
				sh.traces += 1
				if (code != 0) != (ev in expect_fail):
					sh.violation('cli-event-unexpected-exit', dict(history=[CLI_EVENTS[i] for i in hist[:step + 1]], mode='in-process', **extra), 'fail' if ev in expect_fail else 'exit 0',
					             dict(exit=code, exc=repr(exc), out=stdout[-300:]))
					break
				s = visible(disk_state(fx.dbdir), wal)
				if s != s0:
					states.add(s)
					sh.violation('database-files-changed', dict(history=[CLI_EVENTS[i] for i in hist[:step + 1]], mode='in-process', **extra), [list(x) for x in s0], [list(x) for x in s])
					break
			else:
				if wal:
					gc.collect()           # connections of the finished commands are closed: now nothing but the two files may be there
					s = disk_state(fx.dbdir)
					if s != s0:
						sh.violation('database-files-changed', dict(history=[CLI_EVENTS[i] for i in hist] + ['(gc)'], mode='in-process', **extra), [list(x) for x in s0], [list(x) for x in s])
						continue
					sh.count('wal_mode_histories')
				sh.nontrivial += 1
		sh.states = len(states)
	sh.count('cli_histories', 1)
	sh.sample(dict(family='cli-in-process', depth=depth, last_history=[CLI_EVENTS[i] for i in hist]))
	return sh


def t_cli_fresh(part, nparts, pairs, wal=False):
	"""Each event in its own interpreter."""
	sh = Shard()
	extra = (dict(journal_mode='wal') if wal is True else dict(schema='no-secondary-indexes')) if wal else {}
	hists = [(a,) for a in range(len(CLI_EVENTS))]
	if pairs:
		hists += [(a, b) for a in range(len(CLI_EVENTS)) for b in range(len(CLI_EVENTS)) if a != b and (a + b) % 3 == 0]
	with fixtures.workdir('c18f') as d:
		fx = clifix.build(os.path.join(d, 'fx'), params=['P0', 'P1'])
		if wal:
			make_wal(fx, wal)
		s0 = disk_state(fx.dbdir)
		env = dict(os.environ)
		for hi, hist in enumerate(hists):
			if hi % nparts != part:
				continue
			for step, ei in enumerate(hist):
				ev = CLI_EVENTS[ei]
				r = subprocess.run([sys.executable, '-m', 'gambit'] + [str(a) for a in cli_args(fx, d, ev)], env=env, capture_output=True, text=True, timeout=300)
				sh.evals += 1
				sh.transitions += 1
				sh.traces += 1
				if (r.returncode != 0) != ev.startswith('fail-'):
					sh.violation('cli-event-unexpected-exit', dict(history=[CLI_EVENTS[i] for i in hist[:step + 1]], mode='fresh-interpreter', **extra), None, dict(exit=r.returncode, err=r.stderr[-400:]))
					break
				s = disk_state(fx.dbdir)
				if s != s0:
					sh.violation('database-files-changed', dict(history=[CLI_EVENTS[i] for i in hist[:step + 1]], mode='fresh-interpreter', **extra), [list(x) for x in s0], [list(x) for x in s])
					break
			else:
				sh.nontrivial += 1
				if wal:
					sh.count('wal_mode_histories')
		sh.states = 1
	sh.count('fresh_interpreter_histories', 1)
	sh.sample(dict(family='cli-fresh-interpreter', last_history=[CLI_EVENTS[i] for i in hist]))
	return sh


# ------------------------------------------------------------------------------------------------ library histories

LIB_EVENTS = ['begin-nested', 'begin-nested-kw', 'nested-commit', 'nested-rollback', 'core-update', 'bulk-update', 'taxon-name-lookup', 'traverse-taxonomy', 'writable-sessionmaker-cls', 'writable-sessionmaker-flag', 'writable-session-open-close', 'load', 'query', 'orm-read', 'edit-attr', 'add-taxon', 'delete-genome', 'flush', 'autoflush-query', 'commit', 'rollback', 'close-session', 'gc', 'close-sigs']


class World:
	def __init__(self, fx):
		self.fx = fx
		self.db = None
		self.sigs_closed = False
		self.session_closed = False
		self.pending = 0       # number of edit/add/delete operations since load / rollback / close
		self.done_writable = []
		self.raw_write_pending = False
		self.nested = []       # open SAVEPOINT transactions (begin_nested)

	def key(self):
		if self.db is None:
			return ('unloaded', tuple(self.done_writable))
		s = self.db.session
		return ('loaded', len(s.new), len(s.dirty), len(s.deleted), self.session_closed, self.sigs_closed, self.raw_write_pending, min(len(self.nested), 2))


WRITABLE = ['writable-sessionmaker-cls', 'writable-sessionmaker-flag', 'writable-session-open-close']


def lib_enabled(w):
	if w.db is None:
		# before the database is loaded: somebody else in the process may have asked for a WRITABLE session maker on the same file
		# (without writing anything) - the default session obtained afterwards must still be read-only
		return ['load'] + [e for e in WRITABLE if e not in w.done_writable]
	ev = ['orm-read', 'taxon-name-lookup', 'traverse-taxonomy', 'core-update', 'bulk-update', 'edit-attr', 'add-taxon', 'delete-genome', 'flush', 'autoflush-query', 'commit', 'rollback', 'close-session', 'gc', 'load',
	      'begin-nested', 'begin-nested-kw', 'nested-commit', 'nested-rollback']
	if not w.sigs_closed:
		ev += ['query', 'close-sigs']
	return ev


def lib_apply(w, ev):
	"""Returns None or a violation description."""
	from gambit.db import ReferenceDatabase
	from gambit.db.models import Taxon, Genome, AnnotatedGenome
	from gambit.query import query
	if ev in WRITABLE:
		from sqlalchemy.orm import Session
		from gambit.db.sqla import file_sessionmaker
		gdb = os.path.join(w.fx.dbdir, 'ref.gdb')
		if ev == 'writable-sessionmaker-cls':
			file_sessionmaker(gdb, cls=Session)
		elif ev == 'writable-sessionmaker-flag':
			file_sessionmaker(gdb, readonly=False)
		else:
			sess = file_sessionmaker(gdb, readonly=False)()
			sess.execute(__import__('sqlalchemy').text('select count(*) from genomes')).fetchall()
			sess.close()
		w.done_writable.append(ev)
		return None
	if ev == 'load':
		if w.db is not None:
			old = w.db
			w.db = None
			del old
		w.db = ReferenceDatabase.load_from_dir(w.fx.dbdir)
		w.sigs_closed = w.session_closed = False
		w.pending = 0
		w.raw_write_pending = False
		w.nested = []
		from gambit.db import ReadOnlySession
		if not isinstance(w.db.session, ReadOnlySession):
			return dict(kind='default-session-is-not-read-only', session_class=type(w.db.session).__name__)
		return None
	s = w.db.session
	if ev == 'query':
		query(w.db, [clifix.lib_signature('P0', clifix.QUERIES['g1'])])
	elif ev == 'orm-read':
		[t.name for t in s.query(Taxon).all()]
		[g.description for g in w.db.genomeset.genomes]
	elif ev in ('core-update', 'bulk-update'):
		# write attempts that do not go through flush(): they run inside the session's transaction, which can never be committed - so they must
		# be gone when the session is closed.  (While the transaction is open SQLite keeps a rollback journal next to the file: mid-history the
		# directory listing may show it; the CONTENT of the two database files must not change, and after closing everything must be as before.)
		import sqlalchemy
		if ev == 'core-update':
			s.execute(sqlalchemy.text("UPDATE taxa SET name = 'overwritten' WHERE id = 1"))
		else:
			s.bulk_update_mappings(Taxon, [dict(id=1, name='bulk overwritten'), dict(id=2, distance_threshold=0.999)])
		w.raw_write_pending = True
	elif ev == 'taxon-name-lookup':
		# statements that go through the non-unique indexes of the schema
		s.query(Taxon).filter_by(name='Genus one').all()
		s.query(Taxon).filter(Taxon.ncbi_id == 101).all()
		s.query(Genome).filter_by(refseq_acc='GCF_1').all()
		list(w.db.genomeset.root_taxa())
	elif ev == 'traverse-taxonomy':
		for root in w.db.genomeset.root_taxa():
			for t in root.traverse():
				t.isleaf(), list(t.ancestors()), [c.name for c in t.children], t.genomes.count()
	elif ev == 'edit-attr':
		t = s.query(Taxon).first()
		t.name = (t.name or '') + ' edited'
		t.distance_threshold = 0.123
		w.db.genomeset.description = 'changed'
		w.pending += 1
	elif ev == 'add-taxon':
		s.add(Taxon(key=f'new-{w.pending}', name='new taxon', genome_set=w.db.genomeset))
		w.pending += 1
	elif ev == 'delete-genome':
		g = s.query(AnnotatedGenome).first()
		if g is not None:
			s.delete(g)
			w.pending += 1
	elif ev == 'flush':
		before = (len(s.new), len(s.dirty), len(s.deleted))
		s.flush()
		after = (len(s.new), len(s.dirty), len(s.deleted))
		if after != before:
			return dict(kind='flush-wrote-pending-changes', before=before, after=after)
	elif ev == 'autoflush-query':
		before = (len(s.new), len(s.dirty), len(s.deleted))
		s.query(Genome).filter(Genome.key.like('%ref%')).count()
		s.query(Taxon).filter_by(name='new taxon').all()
		after = (len(s.new), len(s.dirty), len(s.deleted))
		if after != before:
			return dict(kind='autoflush-wrote-pending-changes', before=before, after=after)
	elif ev == 'commit':
		try:
			s.commit()
		except Exception:
			return None
		return dict(kind='commit-did-not-raise')
	elif ev in ('begin-nested', 'begin-nested-kw'):
		# SAVEPOINT: with the stdlib sqlite3 driver a savepoint can be the outermost transaction, and releasing it commits
		before = (len(s.new), len(s.dirty), len(s.deleted))
		try:
			w.nested.append(s.begin_nested() if ev == 'begin-nested' else s.begin(nested=True))       # both spellings of the session API
		except Exception:
			pass
		after = (len(s.new), len(s.dirty), len(s.deleted))
		if after != before:
			return dict(kind='flush-wrote-pending-changes', via='begin_nested', before=before, after=after)
	elif ev in ('nested-commit', 'nested-rollback'):
		if w.nested:
			tr = w.nested.pop()
			before = (len(s.new), len(s.dirty), len(s.deleted))
			try:
				tr.commit() if ev == 'nested-commit' else tr.rollback()
			except Exception:
				pass            # the session may refuse; the files and the pending sets are what is judged
			after = (len(s.new), len(s.dirty), len(s.deleted))
			if ev == 'nested-commit' and after != before:
				return dict(kind='flush-wrote-pending-changes', via='release of a savepoint', before=before, after=after)
	elif ev == 'rollback':
		s.rollback()
		w.pending = 0
		w.raw_write_pending = False
		w.nested = []
	elif ev == 'close-session':
		s.close()
		w.session_closed = True
		w.pending = 0
		w.raw_write_pending = False
		w.nested = []
	elif ev == 'gc':
		gc.collect()
	elif ev == 'close-sigs':
		w.db.signatures.close()
		w.sigs_closed = True
	return None


def lib_replay(fx, hist, wal=False):
	"""Replay a history on fresh real objects; returns (world, violation or None, disk state after every event)."""
	fixtures.reset_gambit_globals()       # own the library's module-level state: every history starts as in a fresh interpreter
	w = World(fx)
	s0 = disk_state(fx.dbdir)
	for i, ev in enumerate(hist):
		if ev not in lib_enabled(w):
			return w, dict(kind='not-enabled', at=i), s0
		try:
			v = lib_apply(w, ev)
		except Exception as e:
			# an operation the library refuses in this state (e.g. query() on a closed session) is not a verdict; the files are still checked,
			# and the history is not extended further
			v = None
			if visible(disk_state(fx.dbdir), wal) == s0:
				return w, dict(kind='not-enabled', at=i, error=repr(e)[:200]), s0
		if v is None:
			s = disk_state(fx.dbdir)
			# SQLite's rollback journal of a transaction that is still open (possibly of a session that was dropped but not yet collected) is
			# transient and not a change of the database bytes; it must be gone - and is compared strictly - once the history's sessions are closed
			s = visible(tuple(x for x in s if not x[0].endswith('-journal')), wal)
			if s != s0:
				v = dict(kind='database-files-changed', before=[list(x) for x in s0], after=[list(x) for x in s])
		if v is not None:
			v['at'] = i
			return w, v, s0
	return w, None, s0


def lib_cleanup(w):
	if w.db is not None:
		try:
			w.db.signatures.close()
		except Exception:
			pass
		try:
			w.db.session.close()
			w.db.session.get_bind().dispose()
		except Exception:
			pass
		w.db = None
	gc.collect()


def t_library(depth, part, nparts, wal=False):
	"""BFS over histories; this task owns the subtrees whose second event index mod nparts == part (all start with 'load')."""
	sh = Shard()
	extra = (dict(journal_mode='wal') if wal is True else dict(schema='no-secondary-indexes')) if wal else {}
	with fixtures.workdir('c18l') as d:
		fx = clifix.build(os.path.join(d, 'fx'), params=['P0'])
		if wal:
			make_wal(fx, wal)
		import gambit.db, gambit.db.sqla, gambit.query, gambit.results, gambit.cli      # import everything first, then snapshot the globals
		fixtures.reset_gambit_globals()
		seen = {}
		frontier = [('load',)] + [(e,) for e in WRITABLE] + [(a, b) for a in WRITABLE for b in WRITABLE if a != b]
		level = 1
		while frontier and level <= depth:
			nxt = []
			for hist in frontier:
				w, v, s0 = lib_replay(fx, hist, wal)
				sh.evals += 1
				sh.transitions += 1
				sh.traces += 1
				if v is not None and v['kind'] != 'not-enabled':
					sh.violation(v['kind'], dict(history=list(hist), mode='library', **extra), None, v)
					lib_cleanup(w)
					continue
				key = (visible(disk_state(fx.dbdir), wal), w.key())
				enabled = lib_enabled(w)
				lib_cleanup(w)
				# closing the connections / disposing of the engine / garbage collection at the end of a history are events too
				after = disk_state(fx.dbdir)
				if after != s0:
					sh.violation('database-files-changed', dict(history=list(hist) + ['(session closed, engine disposed, gc)'], mode='library', **extra), [list(x) for x in s0], [list(x) for x in after])
					# restore a pristine database for the following histories
					import shutil
					shutil.rmtree(os.path.join(d, 'fx'))
					fx = clifix.build(os.path.join(d, 'fx'), params=['P0'])
					if wal:
						make_wal(fx, wal)
					continue
				if any(e in hist for e in ('edit-attr', 'add-taxon', 'delete-genome')):
					sh.nontrivial += 1
					if any(e in hist[hist.index(next(x for x in hist if x in ('edit-attr', 'add-taxon', 'delete-genome'))):] for e in ('flush', 'autoflush-query', 'commit')):
						sh.count('histories_flushing_or_committing_dirty_session')
				if key in seen:
					continue
				seen[key] = hist
				for j, ev in enumerate(enabled):
					if hist[-1] == 'load' and hist.count('load') == 1 and j % nparts != part:
						continue      # the subtrees below the first 'load' are split between the tasks
					if hist[-1] != 'load' and 'load' not in hist and part != 0 and ev != 'load':
						continue
					nxt.append(hist + (ev,))
			frontier = nxt
			level += 1
		sh.states = len(seen)
		sh.extra = dict(lib_depth=depth, frontier_left=len(frontier))
	sh.sample(dict(family='library', depth=depth, example_history=list(max(seen.values(), key=len)) if seen else None))
	return sh


def finalize(agg, tier):
	agg.require('cli_histories', 12)
	agg.require('fresh_interpreter_histories', 8)
	agg.require('wal_mode_histories', 50)
	agg.require('histories_flushing_or_committing_dirty_session', 10)


def replay(case, kind=None):
	sh = Shard()
	hist = case['history']
	with fixtures.workdir('c18r') as d:
		fx = clifix.build(os.path.join(d, 'fx'), params=['P0', 'P1'])
		wal = True if case.get('journal_mode') == 'wal' else ('noindex' if case.get('schema') == 'no-secondary-indexes' else False)
		if wal:
			make_wal(fx, wal)
		if case['mode'] == 'library':
			hist = [e for e in hist if not e.startswith('(')]
			w, v, s0 = lib_replay(fx, tuple(hist), wal)
			lib_cleanup(w)
			if v is not None and v['kind'] != 'not-enabled':
				sh.violation(v['kind'], case, None, v)
			elif disk_state(fx.dbdir) != s0:
				sh.violation('database-files-changed', case, [list(x) for x in s0], [list(x) for x in disk_state(fx.dbdir)])
			return sh.violations
		s0 = disk_state(fx.dbdir)
		hist = [e for e in hist if not e.startswith('(')]
		for ev in hist:
			if case['mode'] == 'in-process':
				code = fixtures.run_cli(cli_args(fx, d, ev))[0]
			else:
				code = subprocess.run([sys.executable, '-m', 'gambit'] + [str(a) for a in cli_args(fx, d, ev)], capture_output=True, text=True).returncode
			if (code != 0) != ev.startswith('fail-') and ev == hist[-1] and kind == 'cli-event-unexpected-exit':
				sh.violation(kind, case, None, dict(exit=code))
		if wal:
			gc.collect()
		if disk_state(fx.dbdir) != s0:
			sh.violation('database-files-changed', case, [list(x) for x in s0], [list(x) for x in disk_state(fx.dbdir)])
	return sh.violations


MANIFEST = dict(
	engine='E-bfs',
	technique='explicit-state breadth-first search over command / library-call histories replayed on the real database files and ORM session; state = file hashes + directory listing + abstract session state',
	text='Every sequence of 12 CLI commands (incl. failing ones) to depth 2 (thorough 3) in one interpreter, every command and a third of all ordered pairs in fresh '
	     'interpreters, and every library history over 24 operations (query, ORM edits, add, delete, raw UPDATE / bulk update, flush, autoflush, commit, savepoints, '
	     'rollback, close, gc, writable session makers requested first) to depth 4 (5) are '
	     'executed; after every event the genome file, the signature file and the directory listing must be byte-identical to the initial state, commit() must '
	     'raise and pending changes must remain pending after flush/autoflush.  All of it again on a genome file in WAL journal mode.',
	note='depth bounds; dedup arguments in evidence assumptions; mtimes not considered.',
)
