"""C14 - signatures built with different k-mer parameters are never compared silently.

Full product, through the real CLI (click CliRunner, in-process), of
  query -s SIG[Pi]                                                     i in P0..P3 (database = P0)
  dist  {-q files | --ql list | --qs SIG[Pi]} x {-r files | --rl list | --rs SIG[Pj] | --use-db | --square} x
        {no options | -k only | -p only | -k -p = each of P0..P3}
  signatures create {no options | -k only | -p only | -k -p | --db-params | --db-params -k -p}
Oracle = model of the statement: a mismatch between two pre-computed sources, or between explicit options and a pre-computed source, or an
incomplete -k/-p pair => non-zero exit, an error message, no output written; otherwise exit 0 and every written distance equals the library
distance between signatures computed with the expected common parameters (explicit > pre-computed side's > database's / default).
"""
import itertools
import json
import os
from mc.core import Shard
from mc import fixtures, clifix

ID = 'C14'
LEVEL = 'exploration'
RULE = ('full product of source kinds x parameter sets x explicit options (one case = one CLI invocation); non-trivial = an invocation that brings together two '
        'parameter sets that differ (must be refused), or one whose common parameters are not the default ones (must be honoured)')
ASSUMPTIONS = [
	'four parameter sets: database 6/AT, and k differs (7/AT), prefix differs (6/AC), both differ (7/AC); default 11/ATGAC when nothing is given',
	'"tree -s" with -k/-p is not judged (the statement restricts that clause to the distance command)',
]
PS = ['P0', 'P1', 'P2', 'P3']
QSRC = ['files', 'list'] + [f'sig:{p}' for p in PS]
RSRC = ['files', 'list', 'use-db', 'square'] + [f'sig:{p}' for p in PS]
OPTS = ['none', 'k-only', 'p-only'] + [f'kp:{p}' for p in PS] + ['kp:DEF']      # explicit options that spell out the default are still explicit
# the same options spelled in the other order (prefix before k, long option name) and placed after the source options instead of before them
OPTS += ['kp-falsy', 'kp-lower:P0', 'kp-lower:P1']       # explicit but falsy values (-k 0 -p ''): still explicit, and not valid parameters; a prefix in lower case is the same prefix
OPTS += [f'pk:{p}' for p in PS] + [f'late-kp:{p}' for p in PS] + [f'late-pk:{p}' for p in PS] + ['late-k-only', 'late-p-only']


def plan(tier, seed):
	cases = [('query', p, None, None) for p in PS]
	cases += [('dist', q, r, o) for q in QSRC for r in RSRC for o in OPTS]
	cases += [('create', o, None, None) for o in ['none', 'k-only', 'p-only', 'kp:P1', 'db-params', 'db-params+kp:P0', 'db-params+k-only']]
	nsh = 16
	return [('t_cli', dict(shard=s, nshards=nsh)) for s in range(nsh)]


def all_cases():
	cases = [('query', p, None, None) for p in PS]
	cases += [('dist', q, r, o) for q in QSRC for r in RSRC for o in OPTS]
	cases += [('create', o, None, None) for o in ['none', 'k-only', 'p-only', 'kp:P1', 'db-params', 'db-params+kp:P0', 'db-params+k-only']]
	return cases


def opt_args(o):
	o = o[5:] if o.startswith('late-') else o
	if o == 'none':
		return [], None, True
	if o == 'k-only':
		return ['-k', '7'], None, False
	if o == 'p-only':
		return ['-p', 'AC'], None, False
	if o == 'kp-falsy':
		return ['-k', '0', '-p', ''], None, False
	p = o.split(':')[1]
	k, pre = clifix.PARAMS[p]
	if o.startswith('kp-lower:'):
		return ['-k', str(k), '-p', pre.lower()], p, True
	if o.startswith('pk:'):
		return ['--prefix', pre, '-k', str(k)], p, True
	return ['-k', str(k), '-p', pre], p, True


QL = ['g1', 'g2', 'g4']
RL = [0, 2, 5]


PREVIOUS = 'PREVIOUS RESULT, written by an earlier successful run\n'


def run_case(sh, fx, d, case, pre=None):
	"""Each case twice: output path absent before the run, and holding an earlier result (which a refused run must leave as it is)."""
	for p in ((False, True) if pre is None else (pre,)):
		_run_case(sh, fx, d, case, p)


def _wrote(path, pre):
	if not os.path.exists(path) or os.path.getsize(path) == 0:
		return bool(pre)         # an earlier result that vanished or was emptied: the run wrote (nothing) over it
	if pre:
		with open(path, 'rb') as f:
			return f.read() != PREVIOUS.encode()
	return True


def _run_case(sh, fx, d, case, pre):
	cmd, a, b, c = case
	out = os.path.join(d, 'out.csv')
	if os.path.exists(out):
		os.unlink(out)
	if pre:
		with open(out, 'w') as f:
			f.write(PREVIOUS)
	cd = dict(cmd=cmd, a=a, b=b, c=c)
	if pre:
		cd['output_path_held_an_earlier_result'] = True
	if cmd == 'query':
		args = ['-d', fx.dbdir, 'query', '--no-progress', '-o', out, '-s', fx.qsig[a]]
		code, stdout, exc, err = fixtures.run_cli(args)
		sh.evals += 1
		wrote = _wrote(out, pre)
		if a == 'P0':
			if code != 0 or not wrote:
				sh.violation('matching-parameters-refused', cd, 'exit 0 + output', dict(exit=code, wrote=wrote, exc=repr(exc)))
			else:
				sh.count('accepted')
		else:
			sh.nontrivial += 1
			if code == 0 or wrote:
				sh.violation('mismatch-not-refused', cd, 'non-zero exit, no output', dict(exit=code, wrote=wrote, output_head=open(out).read()[:200] if wrote and os.path.exists(out) else None))
			else:
				sh.count('mismatch_refused')
		sh.outcome([cmd, a, code != 0])
		return
	if cmd == 'create':
		outp = os.path.join(d, 'created.gs')
		if os.path.exists(outp):
			os.unlink(outp)
		if pre:
			with open(outp, 'w') as f:
				f.write(PREVIOUS)
		parts = a.split('+')
		args = ['-d', fx.dbdir, 'signatures', 'create', '--no-progress', '-o', outp]
		exp_p, ok = 'DEF', True
		for part in parts:
			if part == 'db-params':
				args.append('--db-params')
				exp_p = 'P0'
			else:
				oa, p, complete = opt_args(part)
				args += oa
				if not complete:
					ok = False
				elif p is not None:
					if 'db-params' in parts:
						ok = False
					exp_p = p
		args += [fx.q[l] for l in QL]
		code, stdout, exc, err = fixtures.run_cli(args)
		sh.evals += 1
		wrote = _wrote(outp, pre) if pre else os.path.exists(outp)
		if not ok:
			sh.nontrivial += 1
			if code == 0 or wrote:
				sh.violation('invalid-parameter-options-accepted', cd, 'non-zero exit, no output', dict(exit=code, wrote=wrote))
			else:
				sh.count('mismatch_refused')
		else:
			from gambit.sigs.base import load_signatures
			import numpy as np
			if code != 0 or not wrote:
				sh.violation('valid-options-refused', cd, 'exit 0', dict(exit=code, exc=repr(exc), out=stdout[-300:]))
				return
			with load_signatures(outp) as s:
				good = s.kmerspec == clifix.kspec_of(exp_p) and all(
					np.array_equal(s[i], clifix.lib_signature(exp_p, clifix.QUERIES[l])) for i, l in enumerate(QL))
			if not good:
				sh.violation('created-with-wrong-parameters', cd, clifix.PARAMS[exp_p], None)
			else:
				sh.count('accepted')
				if exp_p != 'DEF':
					sh.nontrivial += 1
		sh.outcome([cmd, a, code != 0])
		return
	# dist
	args = ['-d', fx.dbdir, 'dist', '--no-progress', '-o', out]
	oa, pe, complete = opt_args(c)
	late = c.startswith('late-')
	if not late:
		args += oa
	pq = pr = None
	if a == 'files':
		for l in QL:
			args += ['-q', fx.q[l]]
	elif a == 'list':
		lf = clifix.write_listfile(os.path.join(d, 'ql.txt'), [clifix.QFILES[l] for l in QL])
		args += ['--ql', lf, '--qdir', os.path.join(fx.d, 'q')]
	else:
		pq = a.split(':')[1]
		args += ['--qs', fx.qsig[pq]]
	if b == 'files':
		for i in RL:
			args += ['-r', fx.r[i]]
	elif b == 'list':
		lf = clifix.write_listfile(os.path.join(d, 'rl.txt'), [os.path.basename(fx.r[i]) for i in RL])
		args += ['--rl', lf, '--rdir', os.path.join(fx.d, 'r')]
	elif b == 'use-db':
		args += ['--use-db']
		pr = 'P0'
	elif b == 'square':
		args += ['--square']
	else:
		pr = b.split(':')[1]
		args += ['--rs', fx.rsig[pr]]
	if late:
		args += oa
	code, stdout, exc, err = fixtures.run_cli(args)
	sh.evals += 1
	wrote = _wrote(out, pre)
	must_fail = (not complete) or (pq and pr and pq != pr) or (pe and pq and pe != pq) or (pe and pr and pe != pr)
	involved = {x for x in (pe, pq, pr) if x}
	if must_fail:
		sh.nontrivial += 1
		if code == 0 or wrote:
			sh.violation('mismatch-not-refused', cd, 'non-zero exit, no output', dict(exit=code, wrote=wrote))
		elif not (stdout + (err or '')).strip() and exc is None:
			sh.violation('mismatch-without-message', cd, 'an error message', dict(exit=code))
		else:
			sh.count('mismatch_refused')
		sh.outcome([cmd, 'refused'])
		return
	common = pe or pq or pr or 'DEF'
	if code != 0 or not wrote:
		sh.violation('consistent-parameters-refused', cd, 'exit 0 + output', dict(exit=code, exc=repr(exc), out=stdout[-300:]))
		return
	qsegs = [clifix.QUERIES[l] for l in (QL if pq is None else list(clifix.QUERIES))]
	if b == 'square':
		rsegs = qsegs
	elif b == 'use-db':
		rsegs = [clifix.REFS[i] if i != 'x' else [3, 7] for i in [2, 0, 5, 'x', 1, 4, 3]]
	elif pr is not None:
		rsegs = clifix.REFS
	else:
		rsegs = [clifix.REFS[i] for i in RL]
	exp = clifix.expected_cells(common, qsegs, rsegs)
	cols, rows, cells = clifix.parse_dmat(out)
	if cells != exp:
		sh.violation('distances-not-under-common-parameters', cd, dict(params=clifix.PARAMS[common], cells=exp[:2]), dict(cells=cells[:2]))
		return
	sh.count('accepted')
	if common != 'DEF':
		sh.nontrivial += 1
		sh.count('accepted_with_non_default_common_parameters')
	sh.outcome([cmd, common, cells[0][:2]])


def t_cli(shard, nshards):
	sh = Shard()
	with fixtures.workdir('c14') as d:
		fx = clifix.build(os.path.join(d, 'fx'), params=PS)
		for i, case in enumerate(all_cases()):
			if i % nshards != shard:
				continue
			run_case(sh, fx, d, case)
	sh.sample(dict(last_case=dict(cmd=case[0], a=case[1], b=case[2], c=case[3])))
	return sh


def finalize(agg, tier):
	agg.require('mismatch_refused', 100)
	agg.require('accepted', 50)
	agg.require('accepted_with_non_default_common_parameters', 20)


def replay(case, kind=None):
	sh = Shard()
	with fixtures.workdir('c14r') as d:
		fx = clifix.build(os.path.join(d, 'fx'), params=PS)
		run_case(sh, fx, d, (case['cmd'], case['a'], case['b'], case['c']), pre=bool(case.get('output_path_held_an_earlier_result')))
	return sh.violations


MANIFEST = dict(
	engine='E-enum',
	technique='full product of CLI source kinds x parameter sets x explicit options, each a real in-process CLI invocation, vs. a model of the statement',
	text='All 4 "query -s" cases, all 6x8x7 = 336 "dist" combinations of query source, reference source and explicit -k/-p, and the "signatures create" '
	     'option combinations are run through the real CLI; mismatches must give a non-zero exit, a message and no output; consistent combinations '
	     'must succeed and every written distance must equal the library distance under the expected common parameters.',
	note='four parameter sets; click 8.5 CliRunner in-process; distances judged against library signatures (C01/C02/C06 decide those).',
)
