"""C15 - the distance behaves as a metric on signatures.

Exhaustive over the power set of an n-element universe (n = 6 quick, 7 thorough; plus a seed-placed universe near an integer
width boundary): all pairs (range, identity, disjointness, bitwise symmetry, width invariance over all 36 dtype pairs, strict
decrease when an absent element joins both) and all triples (triangle inequality in exact rationals, slack 2^-22).
All distances come from the real gambit.metric.jaccarddist.
"""
import itertools
from fractions import Fraction
from mc.core import Shard
from mc import refmodel as R
from mc.props.c02 import f32bits, DTYPES

ID = 'C15'
LEVEL = 'exploration'
RULE = ('all ordered pairs and all ordered triples over the power set of an n-element universe (n=6/7) at several value offsets; '
        'one case = one pair (with its 36 dtype variants) or one triple; non-trivial = pair of distinct non-empty overlapping sets, '
        'or triple of pairwise distinct sets')
ASSUMPTIONS = [
	'large universes are not explored here (only through the fraction family of C02); nothing is sampled in their place',
	'triangle inequality evaluated in exact rational arithmetic on the returned float32 values',
]

SLACK = Fraction(1, 2 ** 22)


def offsets(tier, seed):
	base = [0, 2 ** 16 - 3, 2 ** 64 - 8]
	extra = [2 ** 32 - 3, 2 ** 15 - 2, 2 ** 31 - 4, 2 ** 63 - 3, 1000]
	out = base + extra            # (the quick tier used to pick one straddling offset by seed; a full run takes seconds, so all are used)
	# universes that END at the largest value of a storage type (the all-T k-mer for k = 8, 16, 32 and the signed maxima)
	n = 6 if tier == 'quick' else 7
	tops = [2 ** 16 - n, 2 ** 64 - n, 2 ** 32 - n, 2 ** 15 - n, 2 ** 31 - n, 2 ** 63 - n]
	out += tops
	return out


def plan(tier, seed):
	n = 6 if tier == 'quick' else 7
	tasks = []
	for off in offsets(tier, seed):
		for part in range(16):
			tasks.append(('t_universe', dict(n=n, offset=off, part=part, nparts=16)))
	# universes SPREAD over a type's whole range (differences between elements that do not fit the signed type of the same width)
	for name in SPREAD:
		for part in range(16):
			tasks.append(('t_universe', dict(n=n, offset=name, part=part, nparts=16)))
	tasks.append(('t_nearly_identical', dict(tier=tier)))
	for dt in ('u2', 'u8', 'i4'):
		tasks.append(('t_shared_buffer', dict(dtype=dt)))
	return tasks


SPREAD = {
	'spread-u8': [0, 1, 2 ** 63 - 1, 2 ** 63, 2 ** 64 - 2, 2 ** 64 - 1, 2 ** 62],
	'spread-i8': [0, 1, 2 ** 62, 2 ** 62 + 1, 2 ** 63 - 2, 2 ** 63 - 1, 2 ** 61],
	'spread-u4': [0, 1, 2 ** 31 - 1, 2 ** 31, 2 ** 32 - 2, 2 ** 32 - 1, 2 ** 30],
	'spread-u2': [0, 1, 2 ** 15 - 1, 2 ** 15, 2 ** 16 - 2, 2 ** 16 - 1, 2 ** 14],
}


def dtypes_for(maxval):
	out = []
	for dt in DTYPES:
		bits = int(dt[1]) * 8 - (1 if dt[0] == 'i' else 0)
		if maxval < 2 ** bits:
			out.append(dt)
	return out


def t_universe(n, offset, part, nparts):
	import numpy as np
	from gambit.metric import jaccarddist
	sh = Shard()
	U = sorted(SPREAD[offset][:n]) if isinstance(offset, str) else [offset + i for i in range(n)]
	dts = dtypes_for(U[-1])
	base_dt = dts[0]
	subsets = [[x for i, x in enumerate(U) if m >> i & 1] for m in range(2 ** n)]
	arrs = {dt: [np.array(s, dtype=dt) for s in subsets] for dt in dts}
	N = len(subsets)

	def strided(sub, dt):
		p = np.full(2 * len(sub) + 1, U[0], dtype=dt)
		p[1::2] = sub
		return p[1::2]
	views = [strided(s, base_dt) for s in subsets]       # the same sets as non-contiguous views (memory layout is not part of a set)
	# full pair table in the base dtype (needed by every part for the triples)
	bits = [[0] * N for _ in range(N)]
	for i in range(N):
		for j in range(N):
			bits[i][j] = f32bits(jaccarddist(arrs[base_dt][i], arrs[base_dt][j]))
	frac = [[R.f32_bits_to_fraction(b) for b in row] for row in bits]
	one = f32bits(1.0)
	for i in range(N):
		if i % nparts != part:
			continue
		A = set(subsets[i])
		for j in range(N):
			B = set(subsets[j])
			sh.evals += 1
			b = bits[i][j]
			case = dict(A=subsets[i], B=subsets[j], dtype=base_dt)
			if not (0 <= frac[i][j] <= 1) or b >> 31:
				sh.violation('range', case, '[0,1]', b)
			if (b == 0) != (A == B):
				sh.violation('zero-iff-equal', case, A == B, b)
			if (b == one) != (not (A & B) and bool(A | B)):
				sh.violation('one-iff-disjoint', case, not (A & B) and bool(A | B), b)
			if b != bits[j][i]:
				sh.violation('symmetry', case, bits[j][i], b)
			# layout invariance: either argument (alone, and both) as a non-contiguous view
			for x, y, which in ((views[i], arrs[base_dt][j], 'first'), (arrs[base_dt][i], views[j], 'second'), (views[i], views[j], 'both')):
				sh.evals += 1
				g = f32bits(jaccarddist(x, y))
				if g != b:
					sh.violation('layout-invariance', dict(A=subsets[i], B=subsets[j], dtype=base_dt, strided=which), b, g)
			# width invariance: every dtype pair
			for da in dts:
				for db in dts:
					if da == base_dt and db == base_dt:
						continue
					sh.evals += 1
					g = f32bits(jaccarddist(arrs[da][i], arrs[db][j]))
					if g != b:
						sh.violation('width-invariance', dict(A=subsets[i], B=subsets[j], da=da, db=db), b, g)
			# adding an absent element to both strictly decreases (equal sets stay at 0)
			for xi, x in enumerate(U):
				if x in A or x in B:
					continue
				i2, j2 = i | (1 << xi), j | (1 << xi)
				sh.evals += 1
				if A != B:
					if not frac[i2][j2] < frac[i][j]:
						sh.violation('strict-decrease', dict(A=subsets[i], B=subsets[j], x=x, dtype=base_dt), '< %s' % frac[i][j], str(frac[i2][j2]))
					sh.count('strict_decrease_checked')
				elif bits[i2][j2] != 0:
					sh.violation('equal-stays-zero', dict(A=subsets[i], B=subsets[j], x=x, dtype=base_dt), 0, bits[i2][j2])
			if A and B and A != B and A & B:
				sh.nontrivial += 1
			sh.outcome(b)
			# triangle inequality for all third sets
			dij = frac[i][j]
			for k in range(N):
				sh.evals += 1
				if dij > frac[i][k] + frac[k][j] + SLACK:
					sh.violation('triangle', dict(A=subsets[i], B=subsets[j], C=subsets[k], dtype=base_dt), str(frac[i][k] + frac[k][j]), str(dij))
				if i != j and j != k and i != k:
					sh.nontrivial += 1
					if dij == frac[i][k] + frac[k][j]:
						sh.count('triangle_tight')
	sh.sample(dict(universe=U, dtypes=dts, example=dict(A=subsets[5], B=subsets[6], bits=bits[5][6])))
	return sh


def t_shared_buffer(dtype, only=None):
	"""Both arguments are views of ONE buffer (rows / strided selections of a table of sorted k-mer indices): every pair of views
	(start, step, length) with start in 0..2, step in 1..3, length 0..5 - among them pairs that share start, length and type and differ only in
	stride.  The distance is a function of the two SETS: zero exactly for equal sets, symmetric, equal to the exact value."""
	import numpy as np
	from gambit.metric import jaccarddist
	sh = Shard()
	table = np.arange(3, 3 + 4 * 40, 4, dtype=dtype)
	views = [(st, step, ln) for st in range(3) for step in (1, 2, 3) for ln in range(6)]
	for va in views:
		for vb in views:
			if only is not None and [list(va), list(vb)] != only:
				continue
			A = table[va[0]: va[0] + va[1] * va[2]: va[1]] if va[2] else table[va[0]:va[0]]
			B = table[vb[0]: vb[0] + vb[1] * vb[2]: vb[1]] if vb[2] else table[vb[0]:vb[0]]
			sa, sb = A.tolist(), B.tolist()
			exp = R.ref_jaccard_f32(sa, sb)
			sh.evals += 1
			g = f32bits(jaccarddist(A, B))
			if g != exp or g != f32bits(jaccarddist(B, A)) or (g == 0) != (set(sa) == set(sb)):
				sh.violation('shared-buffer-views', dict(view_a=list(va), view_b=list(vb), dtype=dtype, A=sa, B=sb), exp, g)
				continue
			if va != vb and va[0] == vb[0] and va[2] == vb[2]:
				sh.count('same_start_and_length_different_stride')
			sh.nontrivial += 1
	sh.sample(dict(family='shared-buffer', dtype=dtype, views=len(views)))
	return sh


def t_nearly_identical(tier):
	"""Large signatures that differ in one or two k-mers (n = 100 ... 2^20, thorough 2^22): the distance must be > 0, bitwise symmetric, must
	strictly decrease when a k-mer absent from both is added to both, and must not change with the storage width - where the quotient is
	rounded (near 0 or near 1) decides all of this."""
	import numpy as np
	from gambit.metric import jaccarddist
	sh = Shard()
	ns = [100, 1000, 5000, 6000, 7000, 20000, 65536, 100000, 1 << 20] + ([1 << 22] if tier != 'quick' else [])
	for n in ns:
		base = np.arange(0, 3 * n, 3, dtype='u8')              # n values, room in between for new ones
		for ndiff in (1, 2):
			A = base.copy()
			B = base.copy()
			B[n // 2] += 1                                      # one k-mer differs
			if ndiff == 2:
				A[n // 3] += 2
			for da, db in (('u8', 'u8'), ('u4', 'u8'), ('i8', 'u4')):
				a, b = A.astype(da), B.astype(db)
				d1 = f32bits(jaccarddist(a, b))
				sh.evals += 1
				case = dict(A=f'arange(0,{3 * n},3) with {ndiff} element(s) moved', B='same with element n//2 + 1', n=n, da=da, db=db)
				if d1 == 0 or d1 != f32bits(jaccarddist(b, a)):
					sh.violation('zero-iff-equal' if d1 == 0 else 'symmetry', case, '> 0 and symmetric', d1)
					continue
				exp = R.f32_bits_of_fraction(Fraction(2 * ndiff, n + ndiff))
				if d1 != exp:
					sh.violation('value', case, exp, d1)
					continue
				# add a k-mer absent from both to both
				x = 3 * n + 7
				a2, b2 = np.append(a, np.array([x], dtype=da)), np.append(b, np.array([x], dtype=db))
				d2 = f32bits(jaccarddist(a2, b2))
				sh.evals += 1
				if not R.f32_bits_to_fraction(d2) < R.f32_bits_to_fraction(d1):
					sh.violation('strict-decrease', dict(case, x=x), f'< {d1}', d2)
					continue
				sh.nontrivial += 1
				sh.count('nearly_identical_large_pairs')
				sh.outcome(['near', d1])
	sh.sample(dict(family='nearly-identical', sizes=ns))
	return sh


def finalize(agg, tier):
	agg.require('strict_decrease_checked', 100)
	agg.require('triangle_tight', 10)
	agg.require('nearly_identical_large_pairs', 20)


def replay(case, kind=None):
	import numpy as np
	from gambit.metric import jaccarddist
	sh = Shard()

	def d(X, Y, da, db):
		return f32bits(jaccarddist(np.array(X, dtype=da), np.array(Y, dtype=db)))
	if 'view_a' in case:
		return t_shared_buffer(case['dtype'], only=[case['view_a'], case['view_b']]).violations[:1]
	if 'n' in case:
		return [v for v in t_nearly_identical('thorough').violations if v['case'].get('n') == case['n'] and v['case'].get('da') == case['da']][:1]
	A, B = case['A'], case['B']
	if 'strided' in case:
		dt = case['dtype']
		def mk(X, st):
			if not st:
				return np.array(X, dtype=dt)
			p = np.full(2 * len(X) + 1, 0, dtype=dt); p[1::2] = X
			return p[1::2]
		g = f32bits(jaccarddist(mk(A, case['strided'] in ('first', 'both')), mk(B, case['strided'] in ('second', 'both'))))
		exp = R.ref_jaccard_f32(A, B)
		if g != exp:
			sh.violation('layout-invariance', case, exp, g)
		return sh.violations
	da = case.get('da', case.get('dtype')) or 'u8'
	db = case.get('db', case.get('dtype')) or 'u8'
	sa, sb = set(A), set(B)
	b = d(A, B, da, db)
	fr = R.f32_bits_to_fraction
	if kind == 'triangle':
		C = case['C']
		if fr(b) > fr(d(A, C, da, db)) + fr(d(C, B, da, db)) + SLACK:
			sh.violation(kind, case)
	elif kind in ('strict-decrease', 'equal-stays-zero'):
		x = case['x']
		A2, B2 = sorted(sa | {x}), sorted(sb | {x})
		b2 = d(A2, B2, da, db)
		if (sa != sb and not fr(b2) < fr(b)) or (sa == sb and b2 != 0):
			sh.violation(kind, case)
	else:
		exp = R.ref_jaccard_f32(A, B)
		if b != exp or b != d(B, A, db, da):
			sh.violation(kind or 'value', case, exp, b)
	return sh.violations


MANIFEST = dict(
	engine='E-enum',
	technique='bounded exhaustive enumeration of all pairs/triples of subsets of a small universe on the real native code',
	text='Every pair and triple of subsets of a 6-element (thorough 7) universe, at offsets straddling each integer width, is measured with the '
	     'real jaccarddist in all 36 dtype pairings; range, identity, disjointness, bitwise symmetry, width invariance, strict decrease and the '
	     'triangle inequality (exact rationals, slack 2^-22) are checked on every one.',
	note='universe size bound 6/7; large sets only via C02 fractions.',
)
