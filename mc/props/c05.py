"""C05 - bulk and parallel distance computations agree bit-for-bit with the pairwise one.

(a) E-enum over configurations: collection x container x dtype x function x chunk size x index selection (with repeats; list/tuple/ndarray)
    x output buffer kind x OpenMP thread count.  Quick: default + every <=2-dimension deviation; thorough: full product (index lists <=2).
    Oracle: every cell's bit pattern = gambit.metric.jaccarddist(query_i, ref_j) (itself decided by C02); cell order = caller's order;
    square result symmetric with +0.0 diagonal; flat = squareform order; sentinel cells outside the caller's view untouched.
(b) E-sched on the compiled prange loop: native/gompmc.c (LD_PRELOAD) replaces the libgomp entry points; all schedules of N references x
    T threads with <= P preemptions are executed on the real _jaccarddist_parallel; every schedule's output must equal the sequential one.
"""
import ctypes
import itertools
import os
from mc.core import Shard, deviations, HarnessError
from mc import fixtures, child, sched, build
from mc.props.c02 import f32bits
import numpy as np

ID = 'C05'
LEVEL = 'model_checking'
RULE = ('(a) every configuration vector within the deviation bound; one case = one bulk call, all of whose cells are compared; non-trivial = the call '
        'produces >=2 cells with different values and uses >=1 non-default dimension; (b) every OpenMP schedule within the preemption bound; '
        'states = distinct scheduler decision prefixes, transitions = scheduling decisions')
ASSUMPTIONS = [
	'(b) the controlled scheduler interleaves at OpenMP scheduling points (chunk grabs, barriers, thread start); an iteration body is atomic in it, so a data '
	'race inside a body is not visible to it; memory-model effects below sequential consistency are not modelled',
	'(b) N <= 5 (6) references, T <= 3 (4) threads, <= 3 (4) preemptions',
	'(a) collections of <= 5 signatures; thorough full product limited to index lists of length <= 2',
]
SENT = np.float32(-7.25)

COLLS = {
	'mixed': [[3, 7], [], [3], [3, 7], [1, 3, 9]],
	'empties': [[], []],
	'single': [[5]],
	'distinct': [[1], [2], [1, 2, 3], [2, 3]],
}
QUERIES = [[3, 7], [], [3, 9]]


def index_lists(n, maxlen):
	out = [None]
	for m in range(0, maxlen + 1):
		for t in itertools.product(range(n), repeat=m):
			for kind in ('list', 'tuple', 'ndarray'):
				out.append((kind, list(t)))
	return out


def dims(tier):
	n = 5
	return dict(
		coll=['mixed', 'distinct', 'empties', 'single'],
		container=['array', 'siglist', 'pylist', 'hdf5', 'array-view', 'array-int32-bounds', 'hdf5-slice', 'array-window'],
		dtype=['u2', 'u4', 'u8', 'i2', 'i4', 'i8'],
		func=['matrix', 'array', 'pairwise', 'pairwise-flat'],
		chunk=[2, None, 1, 3, 4, 5, 6],
		index=['list:2,0,2', 'none'] + [f'{k}:{",".join(map(str, t))}' for k, t in index_lists(n, 3 if tier == 'quick' else 2)[1:] if (k, t) != ('list', [2, 0, 2])],
		out=['none', 'exact', 'strided'],
		threads=[2, 1, 3, 16],
		qdtype=['same', 'u2', 'u4', 'u8', 'i8', 'wide-values'],
	)


def plan(tier, seed):
	nsh = 16 if tier == 'quick' else 64
	tasks = [('t_configs', dict(tier=tier, shard=s, nshards=nsh)) for s in range(nsh)]
	if tier == 'quick':
		sch = [(5, 3, 3, 'u2', 'u2'), (4, 2, 4, 'u8', 'u4'), (3, 4, 1, 'u4', 'i2')]
	else:
		sch = [(6, 3, 4, 'u2', 'u2'), (5, 4, 3, 'u2', 'u2'), (5, 3, 4, 'u8', 'u4'), (4, 4, 4, 'u4', 'i2'), (6, 2, 6, 'i8', 'u8')]
	for container in ('array', 'hdf5', 'siglist'):
		tasks.append(('t_big', dict(container=container, tier=tier)))
	for func in ('pairwise', 'pairwise-flat', 'matrix', 'array'):
		for dtype in ('u2', 'i8'):
			tasks.append(('t_small_full', dict(func=func, dtype=dtype)))
	tasks.append(('t_mixed_widths', dict()))
	for N, T, P, dq, dr in sch:
		tasks.append(('t_sched_child', dict(N=N, T=T, P=P, dq=dq, dr=dr)))
	return tasks


# ------------------------------------------------------------------------------------------------ (a)

class Fix:
	"""Per-task cache of collections in every container kind."""

	def __init__(self, d):
		self.d = d
		self.cache = {}
		self.ks = fixtures.kspec(6, 'AT')

	def arrays(self, coll, dtype):
		return [np.array(s, dtype=dtype) for s in COLLS[coll]]

	def get(self, coll, container, dtype):
		from gambit.sigs.base import SignatureArray, SignatureList, dump_signatures, load_signatures
		key = (coll, container, dtype)
		if key not in self.cache:
			arrs = self.arrays(coll, dtype)
			if container == 'array':
				obj = SignatureArray(arrs, self.ks, dtype=np.dtype(dtype))
			elif container == 'siglist':
				obj = SignatureList(arrs, self.ks, dtype=np.dtype(dtype))
			elif container == 'pylist':
				obj = list(arrs)
			elif container == 'array-view':
				# a contiguous slice of a larger concatenated array (values/bounds are views with a non-zero offset)
				pad = [np.array([11, 12, 13], dtype=dtype), np.array([], dtype=dtype)]
				big = SignatureArray(pad + arrs + pad[:1], self.ks, dtype=np.dtype(dtype))
				obj = big[2:2 + len(arrs)]
			elif container == 'array-window':
				# a zero-copy window onto a larger values array: bounds that do not start at zero
				pad = [np.array([11, 12, 13], dtype=dtype), np.array([], dtype=dtype)]
				big = SignatureArray(pad + arrs + pad[:1], self.ks, dtype=np.dtype(dtype))
				obj = SignatureArray.from_arrays(big.values, np.asarray(big.bounds)[2:2 + len(arrs) + 1], self.ks)
			elif container == 'array-int32-bounds':
				full = SignatureArray(arrs, self.ks, dtype=np.dtype(dtype))
				obj = SignatureArray.from_arrays(full.values, full.bounds.astype('i4'), self.ks)
			elif container == 'hdf5-slice':
				p = os.path.join(self.d, f'{coll}-{dtype}-s.gs')
				pad = [np.array([11, 12, 13], dtype=dtype)]
				dump_signatures(p, SignatureArray(pad + arrs + pad, self.ks, dtype=np.dtype(dtype)))
				self.cache[(coll, 'hdf5-slice-file', dtype)] = load_signatures(p)
				obj = self.cache[(coll, 'hdf5-slice-file', dtype)][1:1 + len(arrs)]
			else:
				p = os.path.join(self.d, f'{coll}-{dtype}.gs')
				dump_signatures(p, SignatureArray(arrs, self.ks, dtype=np.dtype(dtype)))
				obj = load_signatures(p)
			self.cache[key] = obj
		return self.cache[key]

	def close(self):
		for (c, k, d), o in self.cache.items():
			if k in ('hdf5', 'hdf5-slice-file'):
				o.close()


def parse_index(s, n):
	if s == 'none':
		return None, None
	kind, _, body = s.partition(':')
	vals = [int(x) for x in body.split(',')] if body else []
	if any(v >= n for v in vals):
		return 'skip', None
	obj = vals if kind == 'list' else tuple(vals) if kind == 'tuple' else np.array(vals, dtype=np.intp)
	return obj, vals


def make_out(kind, shape):
	if kind == 'none':
		return None, None
	if kind == 'exact':
		o = np.full(shape, SENT, dtype=np.float32)
		return o, o
	big = np.full(tuple(2 * s + 1 for s in shape), SENT, dtype=np.float32)
	view = big[tuple(slice(1, None, 2) for _ in shape)]
	assert view.shape == tuple(shape)
	return view, big


def run_config(sh, fx, v):
	from gambit.metric import jaccarddist, jaccarddist_array, jaccarddist_matrix, jaccarddist_pairwise
	from gambit._cython.threads import omp_set_num_threads
	coll, dtype = v['coll'], v['dtype']
	refs_plain = fx.arrays(coll, dtype)
	n = len(refs_plain)
	index, ivals = parse_index(v['index'], n)
	if isinstance(index, str):
		return   # index list refers to positions this collection does not have
	func = v['func']
	if func == 'array' and (index is not None or v['chunk'] is not None):
		return   # dimensions that do not exist for this function: not a distinct case
	if func.startswith('pairwise') and v['chunk'] is not None:
		return
	refs = fx.get(coll, v['container'], dtype)
	sel = list(range(n)) if ivals is None else ivals
	# queries may be stored in another integer type than the references; 'wide-values': a 64-bit query holding indices above the
	# range of a narrower reference type (which must simply not match anything)
	if v['qdtype'] == 'same':
		queries = [np.array(q, dtype=dtype) for q in QUERIES]
	elif v['qdtype'] == 'wide-values':
		queries = [np.array(q + [65536 + 3, 2 ** 32 + 3, 2 ** 63 + 3], dtype='u8') for q in QUERIES]
	else:
		queries = [np.array(q, dtype=v['qdtype']) for q in QUERIES]
	omp_set_num_threads(v['threads'])
	case = dict(v)
	try:
		if func == 'array':
			shape = (n,)
			out, big = make_out(v['out'], shape)
			res = jaccarddist_array(queries[0], refs, out=out)
			exp = np.array([f32bits(jaccarddist(queries[0], refs_plain[j])) for j in sel], dtype=np.uint32).reshape(shape)
		elif func == 'matrix':
			shape = (len(queries), len(sel))
			out, big = make_out(v['out'], shape)
			res = jaccarddist_matrix(queries, refs, ref_indices=index, out=out, chunksize=v['chunk'])
			exp = np.array([[f32bits(jaccarddist(q, refs_plain[j])) for j in sel] for q in queries], dtype=np.uint32).reshape(shape)
		else:
			flat = func == 'pairwise-flat'
			m = len(sel)
			shape = (m * (m - 1) // 2,) if flat else (m, m)
			out, big = make_out(v['out'], shape)
			res = jaccarddist_pairwise(refs, indices=index, flat=flat, out=out)
			full = np.array([[f32bits(jaccarddist(refs_plain[a], refs_plain[b])) if ia != ib else 0 for ib, b in enumerate(sel)] for ia, a in enumerate(sel)], dtype=np.uint32).reshape(m, m)
			exp = np.array([full[a, b] for a in range(m) for b in range(a + 1, m)], dtype=np.uint32) if flat else full
	except Exception as e:
		ncells = int(np.prod(shape)) if 'shape' in dir() else 0
		if 'shape' in locals() and int(np.prod(shape)) == 0:
			sh.count('zero_cell_call_raised_not_judged')
			return
		sh.violation('bulk-call-raised', case, 'result', repr(e))
		return
	sh.evals += 1
	if out is not None and res is not out and not (isinstance(res, np.ndarray) and np.shares_memory(res, out)):
		sh.violation('output-buffer-not-used', case)
		return
	got = np.ascontiguousarray(res, dtype=np.float32).view(np.uint32).reshape(shape) if res.size else np.zeros(shape, dtype=np.uint32)
	if res.dtype != np.float32 or res.shape != tuple(shape) or not np.array_equal(got, exp):
		sh.violation('cell-mismatch', case, exp.tolist(), got.tolist() if res.shape == tuple(shape) else repr(res))
		return
	if v['out'] == 'strided':
		mask = np.ones(big.shape, dtype=bool)
		mask[tuple(slice(1, None, 2) for _ in shape)] = False
		if not np.all(big[mask] == SENT):
			sh.violation('wrote-outside-caller-view', case)
			return
		sh.count('strided_output_views')
	# the reference collection (and the queries) are inputs: a bulk call must leave them as they were - the next call uses the same objects
	try:
		intact = len(refs) == n and all(np.asarray(refs[j]).tolist() == refs_plain[j].tolist() for j in range(n))
	except Exception:
		intact = False
	if not intact:
		sh.violation('reference-collection-modified-by-bulk-call', case, [r.tolist() for r in refs_plain], None)
		fx.cache.pop((coll, v['container'], dtype), None)       # do not carry the damaged object into the next configuration
		return
	if func == 'array':
		# ... and a second call on the same objects gives the same cells
		res2 = jaccarddist_array(queries[0], refs)
		sh.evals += 1
		if not np.array_equal(np.ascontiguousarray(res2, dtype=np.float32).view(np.uint32).reshape(shape), exp):
			sh.violation('cell-mismatch', dict(case, second_call_on_the_same_objects=True), exp.tolist(), np.asarray(res2).tolist())
			fx.cache.pop((coll, v['container'], dtype), None)
			return
	if func == 'pairwise':
		if not np.array_equal(got, got.T) or np.any(np.diag(got) != 0):
			sh.violation('pairwise-not-symmetric-zero-diagonal', case, None, got.tolist())
			return
	nd = sum(1 for k in v if v[k] != DEFAULT[k])
	if len(set(exp.ravel().tolist())) >= 2 and nd:
		sh.nontrivial += 1
	if v['chunk'] is not None and index is not None and v['container'] != 'array':
		sh.count('chunk_x_index_x_nondefault_container')
	if ivals is not None and len(set(ivals)) < len(ivals):
		sh.count('index_selection_with_repeats')
	sh.outcome([func, exp.tolist()])


DEFAULT = None


def t_configs(tier, shard, nshards):
	global DEFAULT
	sh = Shard()
	D = dims(tier)
	DEFAULT = {k: D[k][0] for k in D}
	with fixtures.workdir('c05') as d:
		fx = Fix(d)
		try:
			for i, v in enumerate(deviations(D, 2 if tier == 'quick' else None)):
				if i % nshards != shard:
					continue
				run_config(sh, fx, v)
		finally:
			fx.close()
	sh.sample(dict(family='configs', config=v))
	return sh


def t_small_full(func, dtype):
	"""Full product (no deviation bound) over the dimensions that meet in the degenerate sizes: every collection (incl. one signature, all
	empty) x every container x every selection of 0..2 indices (and none) x every kind of output buffer x thread counts 1 / 2.  Before a call
	that lets the library allocate its result, a block of the same size filled with a sentinel is allocated and freed, so that a cell the
	call never writes shows the sentinel rather than a lucky zero."""
	global DEFAULT
	sh = Shard()
	D = dims('quick')
	DEFAULT = {k: D[k][0] for k in D}
	idx = ['none'] + [f'{k}:{",".join(map(str, t))}' for k, t in index_lists(5, 2)[1:] if k != 'tuple']
	with fixtures.workdir('c05f') as d:
		fx = Fix(d)
		try:
			for coll, container, index, out, threads in itertools.product(D['coll'], D['container'], idx if func != 'array' else ['none'], D['out'], [1, 2]):
				v = dict(DEFAULT, coll=coll, container=container, dtype=dtype, func=func, chunk=None if func != 'matrix' else 1, index=index, out=out, threads=threads, qdtype='same')
				if out == 'none':
					for size in (1, 2, 4, 9, 16, 25):
						junk = np.full(size, SENT, dtype=np.float32)
						del junk
				run_config(sh, fx, v)
		finally:
			fx.close()
	sh.count('small_full_product_cases', sh.evals)
	sh.sample(dict(family='small_full', config=v))
	return sh


def t_mixed_widths():
	"""References given as a plain list / tuple whose signatures have DIFFERENT integer widths (a narrow first one, wider later ones holding
	indices beyond the narrow type's range), queries likewise: every order of four such signatures, every bulk function, chunk sizes, one and
	several queries."""
	from gambit.metric import jaccarddist, jaccarddist_array, jaccarddist_matrix, jaccarddist_pairwise
	from gambit._cython.threads import omp_set_num_threads
	sh = Shard()
	pool = [np.array([1, 5], dtype='u2'), np.array([1, 70000], dtype='u4'), np.array([5, 70000, 2 ** 40], dtype='u8'), np.array([], dtype='u2'), np.array([1, 5, 65535], dtype='i4')]
	omp_set_num_threads(2)
	for order in itertools.permutations(range(len(pool)), 4):
		arrs = [pool[i] for i in order]
		for kind, refs in (('list', list(arrs)), ('tuple', tuple(arrs))):
			for nq in (1, 2, 3):
				queries = [pool[(order[0] + j) % len(pool)] for j in range(1, nq + 1)]
				exp = np.array([[f32bits(jaccarddist(q, a)) for a in arrs] for q in queries], dtype=np.uint32)
				for chunk in (None, 1, 3):
					sh.evals += 1
					case = dict(mixed_widths=True, order=list(order), container=kind, queries=nq, chunk=chunk, func='matrix')
					try:
						got = jaccarddist_matrix(queries, refs, chunksize=chunk).view(np.uint32)
					except Exception as e:
						sh.violation('bulk-call-raised', case, 'result', repr(e))
						continue
					if got.shape != exp.shape or not np.array_equal(got, exp):
						sh.violation('cell-mismatch', case, exp.tolist(), got.tolist())
					else:
						sh.nontrivial += 1
				sh.evals += 1
				got = jaccarddist_array(queries[0], refs).view(np.uint32)
				if not np.array_equal(got, exp[0]):
					sh.violation('cell-mismatch', dict(mixed_widths=True, order=list(order), container=kind, queries=1, chunk=None, func='array'), exp[0].tolist(), got.tolist())
			sh.evals += 1
			pw = jaccarddist_pairwise(refs).view(np.uint32)
			e2 = np.array([[f32bits(jaccarddist(a, b)) if ia != ib else 0 for ib, b in enumerate(arrs)] for ia, a in enumerate(arrs)], dtype=np.uint32)
			if not np.array_equal(pw, e2):
				sh.violation('cell-mismatch', dict(mixed_widths=True, order=list(order), container=kind, queries=0, chunk=None, func='pairwise'), e2.tolist(), pw.tolist())
	sh.count('mixed_width_reference_lists', sh.evals)
	sh.sample(dict(family='mixed-widths', pool=[str(a.dtype) for a in pool]))
	return sh


def t_big(container, tier):
	"""Collections larger than the default query chunk size (1000) and than any plausible block size: 1500 (thorough 5000) references, chunk sizes
	none / 1000 / 999 / 64 / 7, thread counts 1 / 4 / 16, index selections (all, reversed, every 3rd with repeats), all three bulk functions;
	every cell against the two-signature distance."""
	import random
	from gambit.metric import jaccarddist, jaccarddist_array, jaccarddist_matrix, jaccarddist_pairwise
	from gambit._cython.threads import omp_set_num_threads
	from gambit.sigs.base import SignatureArray, SignatureList, dump_signatures, load_signatures
	sh = Shard()
	n = 1500 if tier == 'quick' else 5000
	rnd = random.Random(99)
	ks = fixtures.kspec(8, 'AT')
	sets = [sorted(rnd.sample(range(2000), rnd.choice([0, 1, 3, 8, 20]))) for _ in range(n)]
	arrs = [np.array(x, dtype='u2') for x in sets]
	queries = [np.array(sorted(rnd.sample(range(2000), 12)), dtype='u2'), np.array([], dtype='u2'), arrs[17]]
	with fixtures.workdir('c05b') as d:
		if container == 'array':
			refs = SignatureArray(arrs, ks, dtype=np.dtype('u2'))
		elif container == 'siglist':
			refs = SignatureList(arrs, ks, dtype=np.dtype('u2'))
		else:
			p = os.path.join(d, 'big.gs')
			dump_signatures(p, SignatureArray(arrs, ks, dtype=np.dtype('u2')))
			refs = load_signatures(p)
		exp_full = np.array([[f32bits(jaccarddist(q, a)) for a in arrs] for q in queries], dtype=np.uint32)
		selections = {'all': None, 'reversed': list(range(n - 1, -1, -1)), 'every-3rd-with-repeats': [i for i in range(0, n, 3) for _ in (0, 1)][:1201]}
		# index selections as NumPy arrays of narrow / unsigned types holding the largest value of their type (index arithmetic in the caller's type wraps)
		selections.update({
			'int8-array-up-to-127': np.array([127, 126, 0, 127, 5, 64], dtype='i1'), 'uint8-array-up-to-255': np.array([255, 254, 0, 128, 127, 255], dtype='u1'),
			'int16-array': np.array([n - 1, 0, 255, 256, 127, 128], dtype='i2'), 'uint16-array': np.array([n - 1, n - 2, 0, 256], dtype='u2'),
			'uint64-array': np.array([n - 1, 0, 700], dtype='u8'), 'int32-array-reversed': np.arange(n - 1, -1, -1, dtype='i4'),
		})
		for threads in (1, 4, 16):
			omp_set_num_threads(threads)
			got = jaccarddist_array(queries[0], refs).view(np.uint32)
			sh.evals += 1
			if not np.array_equal(got, exp_full[0]):
				bad = int(np.flatnonzero(got != exp_full[0])[0])
				sh.violation('big-array-cell-mismatch', dict(big=True, container=container, func='array', threads=threads, chunk=None, selection='all'), int(exp_full[0][bad]), dict(cell=bad, got=int(got[bad])))
			for chunk in (None, 1000, 999, 64, 7):
				for sname, sel in selections.items():
					if chunk == 7 and (threads != 4 or sname != 'all'):
						continue
					res = jaccarddist_matrix(queries, refs, ref_indices=sel, chunksize=chunk).view(np.uint32)
					exp = exp_full if sel is None else exp_full[:, [int(x) for x in sel]]
					sh.evals += 1
					if res.shape != exp.shape or not np.array_equal(res, exp):
						bad = np.argwhere(res != exp)[0].tolist() if res.shape == exp.shape else None
						sh.violation('big-matrix-cell-mismatch', dict(big=True, container=container, func='matrix', threads=threads, chunk=chunk, selection=sname), None, dict(first_bad_cell=bad))
					else:
						sh.nontrivial += 1
						sh.count('big_bulk_calls')
		# queries that are themselves a selection from the reference object (index list, stepped slice): what the references gather while the
		# matrix is computed must not disturb them
		if container != 'siglist' or True:
			for qkind, qix in (('index-list', [17, 3, 900, 17]), ('stepped-slice', slice(10, 400, 97)), ('mask', np.arange(n) % 499 == 1)):
				qsel = refs[qix]
				qpos = list(range(n))[qix] if isinstance(qix, slice) else ([int(x) for x in np.flatnonzero(qix)] if isinstance(qix, np.ndarray) else qix)
				qs = [qsel[i] for i in range(len(qsel))]
				for sel in ([5, 6, 7], [900, 17, 3, 3, 1200, 1], list(range(0, 40))):
					for chunk in (None, 2):
						omp_set_num_threads(2)
						res = jaccarddist_matrix(qs, refs, ref_indices=sel, chunksize=chunk).view(np.uint32)
						exp = np.array([[f32bits(jaccarddist(arrs[a], arrs[b])) for b in sel] for a in qpos], dtype=np.uint32)
						sh.evals += 1
						if res.shape != exp.shape or not np.array_equal(res, exp):
							sh.violation('big-matrix-cell-mismatch', dict(big=True, container=container, func='matrix', threads=2, chunk=chunk, selection=f'queries={qkind} of the references, refs={sel[:6]}'), None,
							             dict(first_bad_cell=np.argwhere(res != exp)[0].tolist() if res.shape == exp.shape else None))
						else:
							sh.nontrivial += 1
							sh.count('queries_selected_from_the_reference_object')
		omp_set_num_threads(4)
		m = 300
		idx = list(range(0, m * 2, 2))
		pw = jaccarddist_pairwise(refs, indices=idx).view(np.uint32)
		sh.evals += 1
		exp = np.array([[f32bits(jaccarddist(arrs[a], arrs[b])) if a != b else 0 for b in idx] for a in idx], dtype=np.uint32)
		if not np.array_equal(pw, exp):
			sh.violation('big-pairwise-cell-mismatch', dict(big=True, container=container, func='pairwise', threads=4, chunk=None, selection='even-300'), None, dict(first_bad_cell=np.argwhere(pw != exp)[0].tolist()))
		if container == 'hdf5':
			refs.close()
	omp_set_num_threads(2)
	sh.sample(dict(family='big', container=container, n=n))
	return sh


# ------------------------------------------------------------------------------------------------ (b)

def shim_path():
	return os.path.join(build.NBUILD, 'libgompmc.so')


def t_sched_child(N, T, P, dq, dr):
	return child.run('mc.props.c05', 't_sched', dict(N=N, T=T, P=P, dq=dq, dr=dr), env={'LD_PRELOAD': shim_path(), 'OMP_NUM_THREADS': str(T)})


def sched_fixture(N, dq, dr):
	# consecutive duplicates (incl. two empty ones) on purpose: an iteration that looks at its neighbour's input or output is exposed when
	# the neighbour has not run yet
	sets = [[3, 7], [3, 7], [], [], [3, 7, 11, 15], [1], [1]][:N]
	query = np.array([3, 7, 9], dtype=dq)
	values = np.concatenate([np.array(s, dtype=dr) for s in sets]) if sets else np.array([], dtype=dr)
	bounds = np.zeros(N + 1, dtype=np.intp)
	np.cumsum([len(s) for s in sets], out=bounds[1:])
	return query, values, bounds, sets


def run_schedule(lib, T, prefix, query, values, bounds, N):
	import gambit._cython.metric as cm
	from gambit.metric import _cast_sigs_array
	arr = (ctypes.c_int * max(1, len(prefix)))(*prefix)
	big = np.full(N + 128, SENT, dtype=np.float32)      # guard zones: an out-of-range slot lands here instead of corrupting the heap
	out = big[64:64 + N]
	lib.gompmc_arm(T, arr, len(prefix))
	try:
		cm._jaccarddist_parallel(_cast_sigs_array(query), _cast_sigs_array(values), bounds, out)
	finally:
		lib.gompmc_disarm()
	e = lib.gompmc_error()
	if e:
		raise HarnessError(f'scheduler shim error {e} (1 out-of-range choice, 2 deadlock, 3 overflow, 4 nested) prefix={prefix}')
	if lib.gompmc_regions() != 1:
		raise HarnessError(f'expected exactly one controlled parallel region, saw {lib.gompmc_regions()} - shim not in effect?')
	cap = 4096
	n_, r_, t_, th_ = ((ctypes.c_int * cap)() for _ in range(4))
	k = lib.gompmc_trace(n_, r_, t_, th_, cap)
	trace = [(n_[i], r_[i], t_[i]) for i in range(k)]
	threads = [th_[i] for i in range(k)]
	gt = (ctypes.c_int * 1024)()
	gs = (ctypes.c_long * 1024)()
	ge = (ctypes.c_long * 1024)()
	g = lib.gompmc_grants(gt, gs, ge, 1024)
	grants = [(gt[i], gs[i], ge[i]) for i in range(g)]
	if not (np.all(big[:64] == SENT) and np.all(big[64 + N:] == SENT)):
		out = np.full(N, np.float32(-1.0), dtype=np.float32)     # wrote outside the output vector: make the mismatch visible
	return trace, (out.copy(), threads, grants)


def t_sched(N, T, P, dq, dr):
	"""Runs in a child with LD_PRELOAD=libgompmc.so."""
	from gambit.metric import jaccarddist
	sh = Shard()
	if shim_path() not in os.environ.get('LD_PRELOAD', ''):
		raise HarnessError('scheduler shim not preloaded')
	lib = ctypes.CDLL(shim_path())
	lib.gompmc_grants.argtypes = [ctypes.POINTER(ctypes.c_int), ctypes.POINTER(ctypes.c_long), ctypes.POINTER(ctypes.c_long), ctypes.c_int]
	query, values, bounds, sets = sched_fixture(N, dq, dr)
	exp = np.array([f32bits(jaccarddist(query, np.array(s, dtype=dr))) for s in sets], dtype=np.uint32)
	states = set()
	assignments = set()
	out_of_order = 0

	def run(prefix):
		return run_schedule(lib, T, prefix, query, values, bounds, N)

	prev_choices = []
	for choices, trace, (out, threads, grants) in sched.explore(run, P):
		sh.evals += 1
		sh.traces += 1
		got = out.view(np.uint32)
		if not np.array_equal(got, exp):
			# replay twice: the same schedule must fail every time before it is reported ...
			again = [run(choices)[1][0].view(np.uint32).tolist() for _ in range(2)]
			if again[0] != exp.tolist() and again[1] != exp.tolist():
				sh.violation('schedule-dependent-output', dict(N=N, T=T, dq=dq, dr=dr, schedule=choices), exp.tolist(), got.tolist())
			else:
				# ... or the same two-execution history (state carried over from the previous execution) must
				hist = []
				for _ in range(2):
					run(prev_choices)
					hist.append(run(choices)[1][0].view(np.uint32).tolist())
				if hist[0] != exp.tolist() and hist[1] != exp.tolist():
					sh.violation('schedule-history-dependent-output', dict(N=N, T=T, dq=dq, dr=dr, schedule_history=[prev_choices, choices]), exp.tolist(), hist[0])
				else:
					raise HarnessError(f'schedule {choices} fails only sometimes: {got.tolist()} then {again} / {hist} (expected {exp.tolist()})')
		prev_choices = choices
		covered = sorted(i for (_, s, e) in grants for i in range(s, e))
		if covered != list(range(N)):
			sh.violation('iterations-not-partitioned', dict(N=N, T=T, dq=dq, dr=dr, schedule=choices), list(range(N)), covered)
		h = 0
		for t in threads:
			h = hash((h, t))
			states.add(h)
		assignments.add(tuple(g[0] for g in sorted(grants, key=lambda g: g[1])))
		if sched.preemptions(trace):
			sh.nontrivial += 1
		if len({g[0] for g in grants}) > 1:
			sh.count('schedules_with_work_on_several_threads')
	sh.states = len(states) + 1
	sh.transitions = len(states)
	sh.extra = dict(sched=dict(N=N, T=T, P=P, dq=dq, dr=dr, schedules=sh.evals, distinct_iteration_to_thread_assignments=len(assignments)))
	sh.count('distinct_iteration_to_thread_assignments', len(assignments))
	sh.sample(dict(family='schedules', N=N, T=T, preemption_bound=P, last_schedule=choices, thread_sequence=threads, grants=[list(g) for g in grants]))
	sh.outcome(['sched', N, T, exp.tolist()])
	return sh


def finalize(agg, tier):
	agg.require('chunk_x_index_x_nondefault_container', 10)
	agg.require('index_selection_with_repeats', 50)
	agg.require('strided_output_views', 50)
	agg.require('big_bulk_calls', 50)
	agg.require('schedules_with_work_on_several_threads', 100)
	agg.require('distinct_iteration_to_thread_assignments', 20)
	agg.coverage_extra['schedule_explorations'] = [e['sched'] for e in agg.extra if 'sched' in e]


def replay(case, kind=None):
	if case.get('mixed_widths'):
		return [v for v in t_mixed_widths().violations if v['case'] == case][:1] or t_mixed_widths().violations[:1]
	global DEFAULT
	sh = Shard()
	if case.get('big'):
		return [v for v in t_big(case['container'], 'quick').violations if v['case'] == case][:1]
	if 'schedule' in case or 'schedule_history' in case:
		r = child.run('mc.props.c05', 'replay_sched', dict(case=case), env={'LD_PRELOAD': shim_path(), 'OMP_NUM_THREADS': str(case['T'])})
		return r
	D = dims('quick')
	DEFAULT = {k: D[k][0] for k in D}
	with fixtures.workdir('c05r') as d:
		fx = Fix(d)
		try:
			run_config(sh, fx, {k: case[k] for k in D})
		finally:
			fx.close()
	return sh.violations


def replay_sched(case):
	from gambit.metric import jaccarddist
	lib = ctypes.CDLL(shim_path())
	lib.gompmc_grants.argtypes = [ctypes.POINTER(ctypes.c_int), ctypes.POINTER(ctypes.c_long), ctypes.POINTER(ctypes.c_long), ctypes.c_int]
	query, values, bounds, sets = sched_fixture(case['N'], case['dq'], case['dr'])
	exp = [f32bits(jaccarddist(query, np.array(s, dtype=case['dr']))) for s in sets]
	for sc in case.get('schedule_history') or [case['schedule']]:
		trace, (out, threads, grants) = run_schedule(lib, case['T'], sc, query, values, bounds, case['N'])
	if out.view(np.uint32).tolist() != exp or sorted(i for (_, s, e) in grants for i in range(s, e)) != list(range(case['N'])):
		return [dict(kind='schedule-dependent-output', case=case, expected=exp, observed=out.view(np.uint32).tolist())]
	return []


MANIFEST = dict(
	engine='E-sched',
	technique='stateless DFS over all OpenMP schedules (preemption-bounded) of the compiled loop via an LD_PRELOAD scheduler shim + deviation-bounded enumeration of call configurations',
	text='(b) every schedule of the real compiled prange loop for N<=5 references, T<=3 threads, <=3 preemptions (thorough 6/4/4) is executed under a '
	     'controlled libgomp replacement and must give the sequential output bit-for-bit; (a) default + all <=2-deviation configurations (thorough: full '
	     'product) of container, dtype, function, chunk size, index selection with repeats, output buffer and thread count are run on the real bulk '
	     'functions and every cell is compared with the two-signature distance.',
	note='iteration bodies atomic in the scheduler (intra-body races invisible); sequential consistency; small N/T.',
)
