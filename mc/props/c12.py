"""C12 - signature files round-trip exactly; foreign files are refused.

Dimensions (first value = default): k (1..32), prefix, collection (1..3 signatures from {empty,{0},{4^k-1},{0,1,4^k-1}}), container,
id kind, metadata kind, compression filter.  Quick: default + all <=2 deviations; thorough: full product for k in {1,4,5,8,9,16,17,32} plus <=2
deviations elsewhere.  Every file is written by the real dump_signatures, re-opened by the real load_signatures and compared with the
in-memory original under every index expression of a small range.
Foreign files: empty, 1..16 arbitrary bytes, text, FASTA, gzip, HDF5 without the marker, marker on a sub-group only.
"""
import itertools
import json
import os
from mc.core import Shard, deviations
from mc import fixtures
import numpy as np

ID = 'C12'
LEVEL = 'exploration'
RULE = ('default configuration + every configuration differing from it in <=2 dimensions (thorough: full product for 8 values of k), each x every index '
        'expression of the stated range; foreign byte contents; non-trivial = configuration with >=1 non-empty signature and >=1 non-default dimension, '
        'or a foreign file that must be refused; configurations are enumerated once each')
ASSUMPTIONS = [
	'signature values are drawn from {0, 1, 4^k-1} (range boundaries of each index width); collections of at most 3 signatures',
	'bytes IDs are compared after decoding (the statement speaks of string or integer IDs)',
	'a file starting with the HDF5 magic followed by garbage, and an HDF5 signature group with a different format version, are recorded but not '
	'judged (the statement lists empty, text, FASTA and HDF5 files of another kind)',
]

COLLS = ['e,z,t', 'zlt', 'e', 'e,e', 'z', 't', 'zlt,e,zlt', 't,z', 'e,zlt', 'big,e,big']    # e empty, z {0}, t {4^k-1}, zlt {0,1,4^k-1}
DIMS = dict(
	k=[5] + [k for k in range(1, 33) if k != 5],
	prefix=['AT', 'A', 'ATGAC'],
	coll=COLLS,
	container=['array', 'list', 'annotated-array', 'annotated-list', 'list-mixed-element-dtypes'],
	ids=['default', 'int64', 'ascii', 'unicode', 'bytes', 'uint8', 'object-array', 'numpy-str-array', 'numeric-strings', 'uint64-top', 'int64-negative', 'int32-ends', 'python-int-list'],
	meta=['none', 'unicode', 'nested-extra', 'empty-strings', 'mixed-empty', 'id-attr-ncbi_id', 'id-attr-genbank_acc', 'extra-odd-text'],
	comp=['none', 'gzip0', 'gzip9', 'lzf', 'szip', 'gzip-default'],
)
FULL_K = [1, 8, 17, 32]          # full product in the thorough tier: one k per index width (was eight values; the product outgrew an hour when ID and metadata kinds were added)


def plan(tier, seed):
	nsh = 16 if tier == 'quick' else 96
	tasks = [('t_roundtrip', dict(tier=tier, shard=s, nshards=nsh)) for s in range(nsh)]
	tasks.append(('t_foreign', dict(seed=seed)))
	for comp in ('none', 'gzip-default', 'lzf'):
		tasks.append(('t_many', dict(comp=comp, tier=tier)))
		tasks.append(('t_bigsig', dict(comp=comp, tier=tier)))
	return tasks


def configs(tier):
	seen = set()
	for v in deviations(DIMS, 2):
		key = tuple(v[n] for n in DIMS)
		if key not in seen:
			seen.add(key)
			yield v
	if tier == 'thorough':
		d = dict(DIMS)
		d['k'] = FULL_K
		for v in deviations(d, None):
			key = tuple(v[n] for n in DIMS)
			if key not in seen:
				seen.add(key)
				yield v


def make_sigs(v):
	from gambit.kmers import KmerSpec
	ks = KmerSpec(v['k'], v['prefix'])
	top = 4 ** v['k'] - 1
	m = {'e': [], 'z': [0], 't': [top], 'zlt': sorted({0, 1, top}), 'big': sorted(set(range(min(64, top))) | {top})}
	sets = [m[x] for x in v['coll'].split(',')]
	return ks, [np.array(s, dtype=ks.index_dtype) for s in sets]


def make_ids(kind, n):
	if kind == 'default':
		return None
	if kind == 'int64':
		return np.array([10 ** 12 + 7 * i for i in range(n)], dtype='i8')
	if kind == 'uint8':
		return np.array([200 + i for i in range(n)], dtype='u1')
	if kind == 'uint64-top':          # 64-bit hashes as IDs: values that do not fit a signed 64-bit integer
		return np.array([2 ** 64 - 1 - i if i % 2 == 0 else 2 ** 63 + i for i in range(n)], dtype='u8')
	if kind == 'int64-negative':
		return np.array([-(2 ** 63) + i if i % 2 == 0 else -1 - i for i in range(n)], dtype='i8')
	if kind == 'int32-ends':
		return np.array([2 ** 31 - 1 - i if i % 2 == 0 else -(2 ** 31) + i for i in range(n)], dtype='i4')
	if kind == 'python-int-list':
		return [3 * i + 1 for i in range(n)]
	if kind == 'ascii':
		return [f'GCF_00000{i}.1' for i in range(n)]
	if kind == 'unicode':
		return [f'génome-{i}-中é' for i in range(n)]
	if kind == 'bytes':
		return [f'id{i}'.encode() for i in range(n)]
	if kind == 'numeric-strings':
		return [f'{i:07d}' if i % 2 == 0 else str(560 + i) for i in range(n)]       # strings that happen to look like numbers stay strings
	if kind == 'object-array':
		return np.array([f'obj-ü{i}' for i in range(n)], dtype=object)
	if kind == 'numpy-str-array':
		return np.array([f'np_{i}' * (i + 1) for i in range(n)])


def make_meta(kind):
	from gambit.sigs.base import SignaturesMeta
	if kind == 'none':
		return SignaturesMeta()
	if kind == 'id-attr-ncbi_id':
		return SignaturesMeta(id='n', id_attr='ncbi_id')
	if kind == 'id-attr-genbank_acc':
		return SignaturesMeta(id='g', id_attr='genbank_acc', version='3')
	if kind == 'empty-strings':
		return SignaturesMeta(id='', name='', version='', id_attr='', description='', extra={})
	if kind == 'mixed-empty':
		return SignaturesMeta(id='x', name='', version=None, id_attr='key', description='', extra=dict(a=''))
	if kind == 'extra-odd-text':
		# text that is not well-formed Unicode (a surrogate-escaped file name), astral characters, control characters, very long strings, odd keys
		return SignaturesMeta(id='o', extra={'file': 'caf\udce9.fasta', 'lone': ['\ud800', '\udfff x'], 'astral': '𝔊 😀', 'ctl': 'a\x00b\x1f\x7f', 'long': 'é' * 5000,
		                                      'k e y \u2028': 1, '': 'empty key', 'num': [1e308, -0.0, 2 ** 53 + 1, 1e-320]})
	if kind == 'unicode':
		return SignaturesMeta(id='ïd/1', name='näme 中', version='1.0.ü', id_attr='refseq_acc', description='line\nbreak "q" , ü', extra={})
	return SignaturesMeta(id='x', name='n', version='2', id_attr='key', description=None,
	                      extra=dict(a=[1, 2.5, None, 'ü'], b=dict(c=dict(d=[True, False, []]), e=None), f='中', g=-1, h={}))


COMP = {'none': {}, 'gzip0': dict(compression='gzip', compression_opts=0), 'gzip9': dict(compression='gzip', compression_opts=9),
        'lzf': dict(compression='lzf'), 'szip': dict(compression='szip'), 'gzip-default': dict(compression='gzip')}


def index_exprs(n):
	for i in range(-n - 1, n + 1):
		yield i
	rng = [None, -4, -2, -1, 0, 1, 2, 4]
	for a in rng:
		for b in rng:
			for st in (None, 1, -1, 2, -2, 3, -3):
				yield slice(a, b, st)
	vals = list(range(-n, n))
	for m in range(0, 4):
		for t in itertools.product(vals, repeat=m):
			yield list(t)
	for t in itertools.product(range(n), repeat=4):       # length 4, non-negative: permuted / repeated middles between fixed end points
		yield list(t)
		yield np.array(t, dtype=np.intp)
	for t in itertools.product([False, True], repeat=n):
		yield np.array(t, dtype=bool)


def model_index(arrs, ks, ix):
	"""What a plain Python list of the original arrays selects (independent of gambit's indexing code)."""
	n = len(arrs)
	dt = str(ks.index_dtype)
	try:
		if isinstance(ix, (int, np.integer)):
			return ('item', dt, arrs[ix].tolist())
		if isinstance(ix, slice):
			pos = list(range(n))[ix]
		elif isinstance(ix, np.ndarray) and ix.dtype == bool:
			if len(ix) != n:
				return ('raise', 'IndexError')
			pos = [i for i, b in enumerate(ix.tolist()) if b]
		else:
			vals = [int(v) for v in (ix.tolist() if isinstance(ix, np.ndarray) else ix)]
			if any(not -n <= v < n for v in vals):
				return ('raise', 'IndexError')
			pos = [v % n for v in vals]
	except IndexError:
		return ('raise', 'IndexError')
	return ('coll', dt, repr(ks), [(dt, arrs[p].tolist()) for p in pos])


def as_list(x):
	from gambit.sigs.base import AbstractSignatureArray
	if isinstance(x, AbstractSignatureArray):
		return ('coll', str(np.dtype(x.dtype)), repr(x.kmerspec), [(str(np.asarray(s).dtype), np.asarray(s).tolist()) for s in x])
	if isinstance(x, np.ndarray):
		return ('item', str(x.dtype), x.tolist())
	return ('other', repr(x))


def roundtrip(sh, v, d):
	from gambit.sigs.base import SignatureArray, SignatureList, AnnotatedSignatures, dump_signatures, load_signatures
	ks, arrs = make_sigs(v)
	n = len(arrs)
	if v['container'] == 'list-mixed-element-dtypes':
		# a list-backed collection whose elements were produced by different code paths: empty signatures as default int64 arrays
		# (np.arange(0)), one element in a signed type of the same width - values identical, collection dtype = the index dtype
		mixed = []
		for j, a in enumerate(arrs):
			if len(a) == 0 and j > 0:
				mixed.append(np.arange(0))
			elif j % 2 == 1 and (len(a) == 0 or int(a.max()) < 2 ** (8 * a.dtype.itemsize - 1)):
				mixed.append(a.astype(a.dtype.str.replace('u', 'i')))
			else:
				mixed.append(a)
		base = SignatureList(mixed, ks, dtype=ks.index_dtype)
	else:
		base = SignatureArray(arrs, ks, dtype=ks.index_dtype) if 'array' in v['container'] else SignatureList(arrs, ks, dtype=ks.index_dtype)
	ids = make_ids(v['ids'], n)
	meta = make_meta(v['meta'])
	annotated = v['container'].startswith('annotated') or ids is not None or v['meta'] != 'none'
	obj = AnnotatedSignatures(base, ids, meta) if annotated else base
	path = os.path.join(d, 'f.gs')
	if os.path.exists(path):
		os.unlink(path)
	case = dict(v)
	try:
		dump_signatures(path, obj, **COMP[v['comp']])
	except Exception as e:
		if v['comp'] == 'szip' and sum(len(a) for a in arrs) < 32 and 'pixels per block' in str(e):
			# HDF5's szip filter refuses datasets smaller than one block: a limitation of the storage library, no file is produced
			sh.count('szip_refused_tiny_dataset')
			return
		sh.violation('write-failed', case, 'file written', repr(e))
		return
	try:
		loaded = load_signatures(path)
	except Exception as e:
		sh.violation('load-failed', case, 'loads', repr(e))
		return
	sh.evals += 1
	try:
		if loaded.kmerspec != ks or loaded.kmerspec.k != ks.k or loaded.kmerspec.prefix != ks.prefix:
			sh.violation('kmerspec', case, repr(ks), repr(loaded.kmerspec))
			return
		exp_ids = list(range(n)) if ids is None else [x.decode() if isinstance(x, bytes) else (x.item() if isinstance(x, np.generic) else x) for x in ids]
		got_ids = [x.decode() if isinstance(x, bytes) else (x.item() if isinstance(x, np.generic) else x) for x in loaded.ids]
		if got_ids != exp_ids or [type(x) for x in got_ids] != [type(x) for x in exp_ids]:
			sh.violation('ids', case, exp_ids, got_ids)
			return
		exp_meta = meta if annotated else make_meta('none')
		if loaded.meta != exp_meta or json.dumps(loaded.meta.extra, sort_keys=True) != json.dumps(exp_meta.extra, sort_keys=True):
			sh.violation('meta', case, repr(exp_meta), repr(loaded.meta))
			return
		if len(loaded) != n or np.dtype(loaded.dtype) != ks.index_dtype:
			sh.violation('len-dtype', case, dict(len=n, dtype=str(ks.index_dtype)), dict(len=len(loaded), dtype=str(loaded.dtype)))
			return
		ref = SignatureArray(arrs, ks, dtype=ks.index_dtype)
		for ix in index_exprs(n):
			sh.evals += 1
			e = model_index(arrs, ks, ix)
			try:
				g = as_list(loaded[ix])
			except Exception as ex:
				g = ('raise', type(ex).__name__)
			if e != g:
				sh.violation('index', dict(case, index=repr(ix)), e, g)
				return
		if not (loaded == ref):
			sh.violation('equality', case, True, False)
			return
		# what a caller does to an array it was handed must not change what the file-backed collection returns next (the file is unchanged)
		for i in range(n):
			a = loaded[i]
			if isinstance(a, np.ndarray) and a.flags.writeable and len(a):
				a[...] = a[::-1].copy() + 1
				for how, again in (('int', lambda: loaded[i]), ('list', lambda: loaded[[i]][0]), ('slice', lambda: loaded[i:i + 1][0])):
					sh.evals += 1
					b = np.asarray(again())
					if b.tolist() != arrs[i].tolist():
						sh.violation('index', dict(case, index=f'{i} read again ({how}) after the caller modified the array returned by the first read'), arrs[i].tolist(), b.tolist())
						return
	finally:
		loaded.close()
	nd = sum(1 for name in DIMS if v[name] != DIMS[name][0])
	if nd and any(len(a) for a in arrs):
		sh.nontrivial += 1
	sh.count('roundtrips')
	if v['comp'] != 'none':
		sh.count('compressed')
	if v['ids'] in ('unicode', 'ascii', 'bytes', 'object-array', 'numpy-str-array', 'numeric-strings'):
		sh.count('string_ids')
	if ks.index_dtype.itemsize == 8 and 't' in v['coll']:
		sh.count('top_of_uint64_range')
	sh.outcome([v['k'], v['coll'], v['ids'], v['meta']])


def t_roundtrip(tier, shard, nshards):
	sh = Shard()
	with fixtures.workdir('c12') as d:
		for i, v in enumerate(configs(tier)):
			if i % nshards != shard:
				continue
			roundtrip(sh, v, d)
	sh.sample(dict(family='roundtrip', config=v))
	return sh


def t_many(comp, tier):
	"""Collections far above any chunk / buffer size: 3000 (thorough 20000) signatures with lengths 0..40 (k=11, uint32, values up to 4^11-1), string
	IDs, both write paths; after loading every single index, a set of slices and index lists are compared with the in-memory list."""
	import random
	from gambit.kmers import KmerSpec
	from gambit.sigs.base import SignatureArray, SignatureList, AnnotatedSignatures, SignaturesMeta, dump_signatures, load_signatures
	sh = Shard()
	n = 3000 if tier == 'quick' else 20000
	rnd = random.Random(7)
	ks = KmerSpec(11, 'ATGAC')
	arrs = [np.array(sorted(rnd.sample(range(4 ** 11), rnd.choice([0, 0, 1, 5, 40]))), dtype='u4') for _ in range(n)]
	ids = [f'GCF_{i:09d}.{i % 3}' for i in range(n)]
	with fixtures.workdir('c12m') as d:
		for container in ('array', 'list'):
			base = SignatureArray(arrs, ks, dtype=np.dtype('u4')) if container == 'array' else SignatureList(arrs, ks, dtype=np.dtype('u4'))
			obj = AnnotatedSignatures(base, ids, SignaturesMeta(id='many', id_attr='refseq_acc')) if container == 'list' else base
			p = os.path.join(d, f'many-{container}.gs')
			dump_signatures(p, obj, **COMP[comp])
			loaded = load_signatures(p)
			case = dict(many=True, container=container, comp=comp, n=n)
			sh.evals += 1
			try:
				exp_ids = ids if container == 'list' else list(range(n))
				got_ids = [x.item() if isinstance(x, np.generic) else x for x in loaded.ids]
				if len(loaded) != n or got_ids != exp_ids or loaded.kmerspec != ks:
					sh.violation('many-ids-or-length', case, n, len(loaded))
					continue
				bad = next((i for i in range(n) if np.asarray(loaded[i]).tolist() != arrs[i].tolist() or np.asarray(loaded[i]).dtype != np.dtype('u4')), None)
				if bad is not None:
					sh.violation('many-signature-differs', dict(case, index=bad), arrs[bad].tolist()[:5], np.asarray(loaded[bad]).tolist()[:5])
					continue
				sh.evals += n
				for ix in (slice(None), slice(1000, 2100), slice(None, None, 7), slice(n, None, -3), slice(-1, -1500, -1), list(range(0, n, 97)) + [5, 5, n - 1, 0], np.arange(n)[::-11], np.arange(n) % 5 == 0):
					e = model_index(arrs, ks, ix)
					try:
						g = as_list(loaded[ix])
					except Exception as ex:
						g = ('raise', type(ex).__name__)
					sh.evals += 1
					if e != g:
						sh.violation('many-index', dict(case, index=repr(ix)[:60]), str(e)[:200], str(g)[:200])
						break
				else:
					sh.nontrivial += 1
					sh.count('many_roundtrips')
			finally:
				loaded.close()
	sh.sample(dict(family='many', n=n, comp=comp))
	return sh


def t_bigsig(comp, tier):
	"""Single signatures around and above power-of-two element counts (2^16, 2^17, 2^18 = every 9-mer; thorough also 2^20, 2^22) at the
	first / middle / last position among small, empty and other big signatures, all four container kinds."""
	from gambit.kmers import KmerSpec
	from gambit.sigs.base import SignatureArray, SignatureList, AnnotatedSignatures, SignaturesMeta, dump_signatures, load_signatures
	sh = Shard()
	bigs = [65535, 65536, 65537, 100000, 131072, 131073, 262144] + ([1 << 20, (1 << 20) + 1, 1 << 22] if tier != 'quick' else [])
	small = [np.array([3, 77, 4000], dtype='u4'), np.array([], dtype='u4'), np.array([5], dtype='u4')]
	with fixtures.workdir('c12b') as d:
		for B in bigs:
			k = 9 if B <= 4 ** 9 else 11
			ks = KmerSpec(k, 'ATGAC')
			step = max(1, (4 ** k) // B)
			big1 = np.arange(0, B * step, step, dtype='u4')[:B]
			big2 = (np.arange(B, dtype='u4') * step + (step - 1 if step > 1 else 0))[:B]
			patterns = dict(first=[big1, small[0], small[2]], middle=[small[0], big1, small[2]], last=[small[0], small[2], big1],
			                two=[big1, big2, small[0]], then_empty=[small[2], big1, small[1], small[0]], alone=[big1], sandwich=[big1, small[0], big2, small[2]])
			for pname, arrs in patterns.items():
				for container in ('array', 'list', 'annot-list', 'annot-array'):
					base = (SignatureArray if 'array' in container else SignatureList)(arrs, ks, dtype=np.dtype('u4'))
					ids = [f'id{i}' for i in range(len(arrs))]
					obj = AnnotatedSignatures(base, ids, SignaturesMeta(id='big')) if container.startswith('annot') else base
					p = os.path.join(d, 'big.gs')
					case = dict(bigsig=True, big=B, k=k, pattern=pname, container=container, comp=comp)
					sh.evals += 1
					try:
						dump_signatures(p, obj, **COMP[comp])
						loaded = load_signatures(p)
					except Exception as ex:
						sh.violation('bigsig-write-or-load-failed', case, 'round trip', f'{type(ex).__name__}: {ex}'[:200])
						continue
					try:
						bad = None
						if len(loaded) != len(arrs) or loaded.kmerspec != ks:
							bad = ('length/kmerspec', len(loaded))
						else:
							for i, a in enumerate(arrs):
								g = np.asarray(loaded[i])
								if g.dtype != a.dtype or not np.array_equal(g, a):
									nz = int(np.flatnonzero(g != a)[0]) if len(g) == len(a) else -1
									bad = (f'signature {i} (len {len(g)} vs {len(a)}, first difference at {nz})', g[max(nz, 0):max(nz, 0) + 4].tolist())
									break
							else:
								whole = loaded[:]
								if any(not np.array_equal(np.asarray(whole[i]), a) for i, a in enumerate(arrs)):
									bad = ('slice [:]', None)
								rev = loaded[[len(arrs) - 1 - i for i in range(len(arrs))]]
								if bad is None and any(not np.array_equal(np.asarray(rev[len(arrs) - 1 - i]), a) for i, a in enumerate(arrs)):
									bad = ('reversed index list', None)
						if bad:
							sh.violation('bigsig-differs', case, 'equal to what was written', str(bad)[:200])
						else:
							sh.nontrivial += 1
							sh.count('bigsig_roundtrips')
							sh.outcome([B, pname, container])
					finally:
						loaded.close()
	sh.sample(dict(family='bigsig', comp=comp, bigs=bigs))
	return sh


def foreign_files(seed):
	import gzip
	import h5py
	out = [('empty', b''), ('text', b'hello world\n'), ('fasta', b'>seq1\nACGTACGT\n'), ('gzip', gzip.compress(b'>s\nACGT\n', mtime=0)),
	       ('json', b'{"a": 1}'), ('sqlite-magic', b'SQLite format 3\x00' + b'\x00' * 84), ('hdf5-magic-misaligned', b'\n\x89HDF\r\n\x1a\n' + b'\x00' * 100)]
	for n in range(1, 17):
		out.append((f'bytes{n}', bytes((seed * 31 + i * 37 + n) % 256 for i in range(n))))
		out.append((f'magic-prefix{n}', b'\x89HDF\r\n\x1a\n'[:min(n, 7)] + b'x' * max(0, n - 7)))
	return out


def t_foreign(seed):
	import h5py
	from gambit.sigs.base import load_signatures, SignaturesFileError
	from gambit.sigs.hdf5 import FMT_VERSION_ATTR
	sh = Shard()
	with fixtures.workdir('c12f') as d:
		files = []
		for name, data in foreign_files(seed):
			p = os.path.join(d, name)
			with open(p, 'wb') as f:
				f.write(data)
			files.append((name, p, True))
		p = os.path.join(d, 'plain.h5')
		with h5py.File(p, 'w') as f:
			f.create_dataset('values', data=np.arange(4))
			f.attrs['something'] = 1
		files.append(('hdf5-other-kind', p, True))
		p = os.path.join(d, 'empty.h5')
		with h5py.File(p, 'w') as f:
			pass
		files.append(('hdf5-empty', p, True))
		p = os.path.join(d, 'subgroup.h5')
		with h5py.File(p, 'w') as f:
			g = f.create_group('sigs')
			g.attrs[FMT_VERSION_ATTR] = 1
		files.append(('hdf5-marker-on-subgroup-only', p, True))
		p = os.path.join(d, 'lookalike.h5')
		with h5py.File(p, 'w') as f:
			f.attrs['gambit_signatures_versio'] = 1
			f.attrs['kmerspec_k'] = 5
			f.attrs['kmerspec_prefix'] = 'AT'
			f.create_dataset('values', data=np.arange(4, dtype='u2'))
			f.create_dataset('bounds', data=np.array([0, 4]))
			f.create_dataset('ids', data=np.array([0]))
		files.append(('hdf5-all-but-the-marker', p, True))
		# recorded, not judged
		p = os.path.join(d, 'version2.h5')
		with h5py.File(p, 'w') as f:
			f.attrs[FMT_VERSION_ATTR] = 2
		files.append(('hdf5-marker-wrong-version', p, False))
		p = os.path.join(d, 'magic-garbage')
		with open(p, 'wb') as f:
			f.write(b'\x89HDF\r\n\x1a\n' + b'\x00' * 64)
		files.append(('hdf5-magic-then-garbage', p, False))
		notes = {}
		for name, p, judged in files:
			sh.evals += 1
			try:
				r = load_signatures(p)
				outcome = 'loaded'
				try:
					r.close()
				except Exception:
					pass
			except SignaturesFileError:
				outcome = 'SignaturesFileError'
			except Exception as e:
				outcome = type(e).__name__
			if judged:
				if outcome != 'SignaturesFileError':
					sh.violation('foreign-file-not-refused', dict(file=name), 'SignaturesFileError', outcome)
				else:
					sh.nontrivial += 1
					sh.count('foreign_refused')
			else:
				notes[name] = outcome
				if outcome == 'loaded':
					sh.violation('foreign-file-loaded', dict(file=name), 'any error', outcome)
		sh.extra = dict(not_judged=notes)
	sh.sample(dict(family='foreign', files=[n for n, _, _ in files][:12]))
	return sh


def finalize(agg, tier):
	for c in ('roundtrips', 'compressed', 'string_ids', 'top_of_uint64_range', 'foreign_refused'):
		agg.require(c, 20)
	agg.require('many_roundtrips', 4)
	agg.require('bigsig_roundtrips', 100)
	for e in agg.extra:
		if 'not_judged' in e:
			agg.coverage_extra['recorded_not_judged'] = e['not_judged']


def replay(case, kind=None):
	sh = Shard()
	if case.get('many'):
		return [v for v in t_many(case['comp'], 'quick').violations if v['case'].get('container') == case['container']][:1]
	if case.get('bigsig'):
		return [v for v in t_bigsig(case['comp'], 'thorough' if case['big'] > 262144 else 'quick').violations if v['case'] == case][:1]
	if 'file' in case:
		return [v for v in t_foreign(int(os.environ.get('VERIF_SEED') or 0)).violations if v['case'] == case]
	v = {n: case[n] for n in DIMS}
	with fixtures.workdir('c12r') as d:
		roundtrip(sh, v, d)
	return sh.violations


MANIFEST = dict(
	engine='E-enum',
	technique='deviation-bounded exhaustive enumeration of write configurations x all index expressions on real HDF5 files vs. in-memory original',
	text='Default configuration plus every <=2-dimension deviation over k=1..32, prefix, collection shape, container, ID kind, metadata, compression '
	     '(thorough: full product for 4 k values, one per index width) is written by the real writer, re-opened by the real loader and compared with the in-memory original '
	     'for kmerspec, IDs, metadata and every integer / slice / index-list / mask expression; a catalogue of foreign files must raise SignaturesFileError.',
	note='values limited to range-boundary k-mer indices, <=3 signatures (plus the many / bigsig families: thousands of signatures, single signatures up to 2^22 elements); h5py 3.16/HDF5 2.0 as installed.',
)
