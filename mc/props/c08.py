"""C08 - query output rows: one per input, in order, correctly labelled, context-free.

Through the real CLI (gambit -d DB query ...), outputs parsed from the file.
Batches: every non-empty ordered selection without repetition of <=3 of 4 genomes (40) + batches with a repeated genome.
Dimensions (first = default): channel (positional / list file + --ldir / signature file), compression (as stored / the opposite / multi-member gzip), -c (unset,1,2,16),
progress, output format (csv/json/archive), --strict.  Quick: every batch at the default vector + every <=1 deviation for the single and pair
batches; thorough: <=2 deviations for every batch.  Reference chunk size is not exposed by the CLI: it is varied through the library's query().
Oracle: (1) one row/item per input, in order; (2) label = refmodel.ref_label(path) (stored ID for the signature channel); (3) context-freeness,
differential: genome g's row in any batch / channel / configuration equals g's row when queried alone (same output format) - no expected values.
"""
import csv
import itertools
import json
import os
from mc.core import Shard, deviations
from mc import fixtures, clifix
from mc import refmodel as R

ID = 'C08'
LEVEL = 'exploration'
RULE = ('every (batch, configuration vector) within the deviation bound; one case = one CLI invocation, all of whose rows are compared; non-trivial = batch of '
        '>=2 genomes or a non-default configuration (the row could be influenced by context)')
ASSUMPTIONS = ['4 query genomes, 6 reference genomes; batches of <= 3; reference chunk size varied through the library only (the CLI does not expose it)']

LABELS = ['g1', 'g2', 'g3', 'g4']
XLABELS = ['empty1', 'empty2', 'E.faecalis_V583', 'P.fa.lciparum.fasta_x', '#7_isolate', 'E. coli K-12, substr. "MG1655"']
DIMS = dict(
	channel=['positional', 'list', 'list-no-final-newline', 'list-crlf', 'list-blank-lines', 'sigfile'],
	comp=['stored', 'opposite', 'multi-member-gzip', 'mixed', 'symlink', 'misnamed'],      # mixed: alternately from the plain and the gzip directory (same label, different files)
	cores=['unset', '1', '2', '16'],
	progress=['--no-progress', '--progress'],
	fmt=['csv', 'json', 'archive'],
	strict=['no', 'yes'],
	dest=['file', 'dash'],            # -o FILE, or '-o -' = standard output (warnings and progress belong on standard error); the default destination: t_stdout
)


def batches():
	out = []
	for m in (1, 2, 3):
		out += [list(t) for t in itertools.permutations(LABELS, m)]
	out += [['g1', 'g1'], ['g2', 'g4', 'g2'], ['g3', 'g3', 'g3']]
	# genomes without any k-mer (empty signature) next to ordinary ones, in every position; tricky file names
	out += [['empty1'], ['empty1', 'g1'], ['g1', 'empty1'], ['g2', 'empty1', 'g3'], ['empty1', 'empty2'], ['empty2', 'g4', 'empty1'],
	        ['E.faecalis_V583'], ['P.fa.lciparum.fasta_x', 'g1'], ['g2', 'E.faecalis_V583', 'empty2'], ['#7_isolate'], ['g1', '#7_isolate'], ['#7_isolate', 'g3'],
	        ['E. coli K-12, substr. "MG1655"'], ['g2', 'E. coli K-12, substr. "MG1655"']]
	return out


def cases(tier):
	out = []
	seen = set()
	for b in batches():
		dev = (1 if len(b) <= 2 else 0) if tier == 'quick' else 2
		for v in deviations(DIMS, dev):
			if v['channel'] == 'sigfile' and v['comp'] != 'stored':
				continue
			if v['comp'] != 'stored' and any(l in clifix.EXTRA_QUERIES for l in b):
				continue
			key = (tuple(b), tuple(sorted(v.items())))
			if key not in seen:
				seen.add(key)
				out.append((b, v))
	return out


def plan(tier, seed):
	nsh = 16 if tier == 'quick' else 64
	return [('t_cli', dict(tier=tier, shard=s, nshards=nsh)) for s in range(nsh)] + [('t_chunks', dict()), ('t_labels', dict())] + \
	       [('t_stdout', dict(shard=s, nshards=12, tier=tier)) for s in range(12)]


def invoke(fx, d, batch, v, tag='out'):
	from gambit.sigs.base import SignatureArray, AnnotatedSignatures, SignaturesMeta, dump_signatures
	out = os.path.join(d, f'{tag}.{v["fmt"]}')
	if os.path.exists(out):
		os.unlink(out)
	args = ['-d', fx.dbdir, 'query', v['progress'], '-f', v['fmt']] + ['-o', out if v.get('dest', 'file') == 'file' else '-']
	if v['strict'] == 'yes':
		args.append('--strict')
	if v['cores'] != 'unset':
		args += ['-c', v['cores']]
	src = {'stored': (fx.q, 'q'), 'opposite': (fx.qgz, 'qalt'), 'multi-member-gzip': (fx.qmulti, 'qmulti'), 'mixed': (fx.q, 'q'), 'symlink': (fx.qlink, 'qlinks'), 'misnamed': (fx.qmis, 'qmis')}[v['comp']]
	if any(l in clifix.EXTRA_QUERIES for l in batch):
		src = (dict(fx.q, **fx.qx), 'q')           # the extra genomes exist in their stored form only
	paths = [src[0][l] for l in batch]
	if v['comp'] == 'mixed':
		paths = [(fx.q if i % 2 == 0 else fx.qgz)[l] for i, l in enumerate(batch)]
	if v['channel'] == 'positional':
		args += paths
		exp_labels = [R.ref_label(p) for p in paths]
	elif v['channel'].startswith('list'):
		base = os.path.join(fx.d, src[1])
		rel = [os.path.relpath(p, base) for p in paths]
		lf = os.path.join(d, 'list.txt')
		text = {'list': '\n'.join(rel) + '\n', 'list-no-final-newline': '\n'.join(rel), 'list-crlf': '\r\n'.join(rel) + '\r\n',
		        'list-blank-lines': '\n' + '\n\n'.join(rel) + '\n\n'}[v['channel']]
		with open(lf, 'w', newline='') as f:
			f.write(text)
		args += ['-l', lf, '--ldir', base]
		exp_labels = [R.ref_label(p) for p in rel]
	else:
		ks = clifix.kspec_of('P0')
		sp = os.path.join(d, 'batch.gs')
		ids = [('refseq/{}.{}.fa.gz', 'id-{}-{}', '{}-{}.fasta')[i % 3].format(l, i) for i, l in enumerate(batch)]        # incl. IDs that look like paths / file names
		dump_signatures(sp, AnnotatedSignatures(SignatureArray([clifix.lib_signature('P0', dict(clifix.QUERIES, **clifix.EXTRA_QUERIES)[l]) for l in batch], ks, dtype=ks.index_dtype), ids, SignaturesMeta()))
		args += ['-s', sp]
		exp_labels = ids
	code, stdout, exc, err = fixtures.run_cli(args)
	if v.get('dest', 'file') == 'dash' and code == 0:
		with open(out, 'w', newline='') as f:
			f.write(stdout)                       # everything the command wrote to standard output IS the result
	return code, out, exp_labels, exc, stdout


def parse(out, fmt):
	"""-> list of (label, content-without-input-metadata)"""
	if fmt == 'csv':
		with open(out, newline='') as f:
			rows = list(csv.reader(f))
		return [(r[0], r[1:]) for r in rows[1:]], rows[0]
	with open(out) as f:
		data = json.load(f)
	items = []
	for it in data['items']:
		it = json.loads(json.dumps(it))
		if fmt == 'json':
			label = it['query']['name']
			it['query'] = None
		else:
			label = it['input']['label']
			it['input'] = None
		items.append((label, it))
	top = {k: v for k, v in data.items() if k not in ('items', 'timestamp')}
	return items, top


def t_cli(tier, shard, nshards):
	sh = Shard()
	with fixtures.workdir('c08') as d:
		fx = clifix.build(os.path.join(d, 'fx'), params=['P0'])
		default = {k: v[0] for k, v in DIMS.items()}
		# baselines: each genome queried alone, per (format, strict) - computed on demand
		base = {}

		def get_base(fmt, strict, l):
			if (fmt, strict, l) not in base:
				v = dict(default, fmt=fmt, strict=strict)
				code, out, exp_labels, exc, stdout = invoke(fx, d, [l], v, tag='base')
				if code != 0:
					return ('FAILED', dict(exit=code, exc=repr(exc), out=stdout[-300:]))
				items, top = parse(out, fmt)
				base[(fmt, strict, l)] = (items[0][1], top)
			return base[(fmt, strict, l)]
		for i, (batch, v) in enumerate(cases(tier)):
			if i % nshards != shard:
				continue
			code, out, exp_labels, exc, stdout = invoke(fx, d, batch, v)
			sh.evals += 1
			case = dict(batch=batch, config=v)
			if code != 0 or not os.path.exists(out):
				sh.violation('query-failed', case, 'exit 0', dict(exit=code, exc=repr(exc), out=stdout[-300:]))
				continue
			try:
				items, top = parse(out, v['fmt'])
			except Exception as e:
				sh.violation('output-unparseable', case, 'parseable', repr(e))
				continue
			if len(items) != len(batch):
				sh.violation('row-count', case, len(batch), len(items))
				continue
			if [x[0] for x in items] != exp_labels:
				sh.violation('labels', case, exp_labels, [x[0] for x in items])
				continue
			bad = [(j, l) for j, l in enumerate(batch) if items[j][1] != get_base(v['fmt'], v['strict'], l)[0]]
			if bad:
				j, l = bad[0]
				sh.violation('row-depends-on-context', dict(case, position=j, genome=l), get_base(v['fmt'], v['strict'], l)[0], items[j][1])
				continue
			if len(batch) >= 2 or v != default:
				sh.nontrivial += 1
			if batch != sorted(batch):
				sh.count('batches_out_of_sorted_order')
			if len(set(batch)) < len(batch):
				sh.count('batches_with_repeated_genome')
			if v['channel'] != 'positional':
				sh.count('non_positional_channel')
			sh.outcome([v['fmt'], [x[0] for x in items]])
	sh.sample(dict(batch=batch, config=v, labels=exp_labels))
	return sh


def t_stdout(shard, nshards, tier, only=None):
	"""The default destination: no -o at all, 'python -m gambit' in a fresh process, standard output and standard error captured separately.
	What arrives on standard output must parse and equal, item by item, the single-genome baselines; batches include repeated labels (the
	same file twice, the same name from two directories), for which the command prints a warning."""
	import subprocess
	import sys
	sh = Shard()
	with fixtures.workdir('c08s') as d:
		fx = clifix.build(os.path.join(d, 'fx'), params=['P0'])
		default = {k: v[0] for k, v in DIMS.items()}
		bl = [b for b in batches() if len(b) <= 2 or len(set(b)) < len(b) or tier != 'quick']
		todo = []
		for b in bl:
			for fi, fmt in enumerate(DIMS['fmt']):
				comp = 'mixed' if len(set(b)) < len(b) and not any(l in clifix.EXTRA_QUERIES for l in b) else 'stored'
				todo.append((b, dict(default, fmt=fmt, comp=comp, progress=DIMS['progress'][(fi + len(b)) % 2], dest='default-stdout')))
		base = {}
		for i, (batch, v) in enumerate(todo):
			if i % nshards != shard or (only is not None and (batch, v) != only):
				continue
			if v['comp'] == 'mixed':
				paths = [(fx.q if j % 2 == 0 else fx.qgz)[l] for j, l in enumerate(batch)]
			else:
				paths = [dict(fx.q, **fx.qx)[l] for l in batch]
			args = [sys.executable, '-m', 'gambit', '-d', fx.dbdir, 'query', v['progress'], '-f', v['fmt']] + paths
			r = subprocess.run(args, capture_output=True, text=True, timeout=600)
			sh.evals += 1
			case = dict(batch=batch, config=v)
			if r.returncode != 0:
				sh.violation('query-failed', case, 'exit 0', dict(exit=r.returncode, err=r.stderr[-300:]))
				continue
			out = os.path.join(d, 'stdout.' + v['fmt'])
			with open(out, 'w', newline='') as f:
				f.write(r.stdout)
			try:
				items, top = parse(out, v['fmt'])
			except Exception as e:
				sh.violation('output-unparseable', case, 'parseable', dict(error=repr(e), stdout_starts=r.stdout[:200]))
				continue
			exp_labels = [R.ref_label(p) for p in paths]
			if [x[0] for x in items] != exp_labels:
				sh.violation('labels' if len(items) == len(batch) else 'row-count', case, exp_labels, [x[0] for x in items])
				continue
			bad = None
			for j, l in enumerate(batch):
				if (v['fmt'], l) not in base:
					code, bout, _, exc, so = invoke(fx, d, [l], dict(default, fmt=v['fmt']), tag='base')
					base[(v['fmt'], l)] = parse(bout, v['fmt'])[0][0][1] if code == 0 else ('FAILED', so[-200:])
				if items[j][1] != base[(v['fmt'], l)]:
					bad = (j, l)
					break
			if bad:
				sh.violation('row-depends-on-context', dict(case, position=bad[0], genome=bad[1]), base[(v['fmt'], bad[1])], items[bad[0]][1])
				continue
			sh.nontrivial += 1
			sh.count('default_stdout_runs')
			if len(set(exp_labels)) < len(exp_labels):
				sh.count('default_stdout_runs_with_duplicate_label_warning' if 'more than once' in r.stderr or 'uplicate' in r.stderr else 'default_stdout_runs_with_duplicate_labels_no_warning_seen')
			sh.outcome(['stdout', v['fmt'], exp_labels])
	sh.sample(dict(family='default-stdout', batches=len(bl)))
	return sh


def t_labels():
	"""The label rule on every combination of directory x stem x FASTA extension x gzip extension, through the function both input channels use
	(positional paths and list-file lines), plus ids/files pairing and order."""
	import io
	from gambit.cli.common import get_sequence_files
	sh = Shard()
	dirs = ['', 'd/', 'a.b/c.fasta/', '../x/', '/abs/dir.gz/']
	stems = ['g', 'a.b', 'sample_1.v2', 'fa', '.hidden', 'UP.FASTA', 'x.fastaX', 'gz', 'n-1', 'with space', 'x.fa', 'y.fna', 'asm.fasta', 'z.gz']      # incl. stacked extensions: only the LAST FASTA extension (after an optional .gz) is the extension
	exts = ['', '.fasta', '.fna', '.ffn', '.faa', '.frn', '.fa', '.txt', '.fas', '.FA']
	gzs = ['', '.gz']
	paths = [d + st + e + g for d in dirs for st in stems for e in exts for g in gzs]
	exp = [R.ref_label(p) for p in paths]
	for channel in ('explicit', 'listfile'):
		if channel == 'explicit':
			ids, files = get_sequence_files(explicit=paths)
			fpaths = [str(f.path) for f in files]
			want_paths = [os.path.normpath(p) if False else str(__import__('pathlib').Path(p)) for p in paths]
		else:
			ids, files = get_sequence_files(listfile=io.StringIO('\n'.join(paths) + '\n'), listfile_dir='/base/dir')
			fpaths = [str(f.path) for f in files]
			want_paths = [str(__import__('pathlib').Path('/base/dir') / p) for p in paths]
		sh.evals += len(paths)
		if len(ids) != len(paths) or len(files) != len(paths):
			sh.violation('label-count', dict(batch=[channel], config=dict(labels='exhaustive')), len(paths), len(ids))
			continue
		for p, e, g, fp, wp in zip(paths, exp, ids, fpaths, want_paths):
			if g != e:
				sh.violation('label-rule', dict(batch=[p], config=dict(labels=channel)), e, g)
				break
			if fp != wp:
				sh.violation('label-file-pairing', dict(batch=[p], config=dict(labels=channel)), wp, fp)
				break
			if e != p.rsplit('/', 1)[-1]:
				sh.nontrivial += 1
		if any(f.compression != 'auto' or f.format != 'fasta' for f in files):
			sh.violation('file-not-auto-compression', dict(batch=[channel], config=dict(labels='exhaustive')), 'fasta/auto', None)
	sh.count('label_paths', len(paths))
	sh.sample(dict(family='labels', n=len(paths), example=[paths[37], exp[37]]))
	return sh


def t_chunks():
	"""Reference chunk size and thread count through the library: a genome's result item does not depend on them nor on the batch."""
	from gambit.db import ReferenceDatabase
	from gambit.query import query, QueryParams
	from gambit._cython.threads import omp_set_num_threads
	from gambit.results import JSONResultsExporter
	import io
	sh = Shard()
	with fixtures.workdir('c08c') as d:
		fx = clifix.build(os.path.join(d, 'fx'), params=['P0'])
		db = ReferenceDatabase.load_from_dir(fx.dbdir)
		sigs = {l: clifix.lib_signature('P0', dict(clifix.QUERIES, **clifix.EXTRA_QUERIES)[l]) for l in LABELS + XLABELS}

		def items_of(batch, chunksize, threads, strict):
			omp_set_num_threads(threads)
			res = query(db, [sigs[l] for l in batch], QueryParams(chunksize=chunksize, classify_strict=strict), inputs=list(batch))
			buf = io.StringIO()
			JSONResultsExporter().export(buf, res)
			return json.loads(buf.getvalue())['items']
		for strict in (False, True):
			base = {l: items_of([l], 1000, 2, strict)[0] for l in LABELS + XLABELS}
			for batch in batches():
				for chunksize in (1, 2, 3, 5, 1000, None):
					for threads in (1, 2, 16):
						got = items_of(batch, chunksize, threads, strict)
						sh.evals += 1
						if len(got) != len(batch) or any(g != base[l] for g, l in zip(got, batch)):
							sh.violation('item-depends-on-chunksize-or-threads', dict(batch=batch, config=dict(chunksize=chunksize, threads=threads, strict=strict)), None, None)
						else:
							sh.nontrivial += 1
		omp_set_num_threads(2)
		db.signatures.close()
		db.session.close()
	sh.count('library_chunk_runs', sh.evals)
	sh.sample(dict(family='chunks', chunk_sizes=[1, 2, 3, 5, 1000, None], threads=[1, 2, 16]))
	return sh


def finalize(agg, tier):
	for c in ('batches_out_of_sorted_order', 'batches_with_repeated_genome', 'non_positional_channel', 'library_chunk_runs', 'label_paths'):
		agg.require(c, 3)


def replay(case, kind=None):
	sh = Shard()
	if 'labels' in case['config']:
		return [v for v in t_labels().violations if v['case'] == case]
	if 'chunksize' in case['config']:
		return [v for v in t_chunks().violations if v['case'] == case]
	if case['config'].get('dest') == 'default-stdout':
		vs = []
		for s in range(12):
			vs += t_stdout(s, 12, 'thorough', only=(case['batch'], case['config'])).violations
		return vs[:1]
	with fixtures.workdir('c08r') as d:
		fx = clifix.build(os.path.join(d, 'fx'), params=['P0'])
		v = case['config']
		default = {k: x[0] for k, x in DIMS.items()}
		code, out, exp_labels, exc, stdout = invoke(fx, d, case['batch'], v)
		if code != 0:
			sh.violation('query-failed', case, 'exit 0', dict(exit=code, exc=repr(exc)))
			return sh.violations
		try:
			items, top = parse(out, v['fmt'])
		except Exception as e:
			sh.violation('output-unparseable', case, 'parseable', repr(e))
			return sh.violations
		if len(items) != len(case['batch']) or [x[0] for x in items] != exp_labels:
			sh.violation(kind or 'labels', case, exp_labels, [x[0] for x in items])
			return sh.violations
		for j, l in enumerate(case['batch']):
			c2, o2, _, _, _ = invoke(fx, d, [l], dict(default, fmt=v['fmt'], strict=v['strict']), tag='base')
			b, _ = parse(o2, v['fmt'])
			if items[j][1] != b[0][1]:
				sh.violation('row-depends-on-context', case, b[0][1], items[j][1])
				break
	return sh.violations


MANIFEST = dict(
	engine='E-enum',
	technique='exhaustive enumeration of ordered input batches x deviation-bounded CLI configurations, each a real CLI invocation, differential oracle (row of the genome queried alone)',
	text='Every ordered batch of <=3 of 4 genomes (plus repeats) is queried through the real CLI at the default configuration and under every <=1 (thorough <=2) '
	     'deviation of input channel, compression, core count, progress display, output format and strictness; the output must have one row per input, in '
	     'order, labelled by the stripped file name / stored ID, and each row must equal that genome\'s row when queried alone; chunk size and thread '
	     'count are varied through the library.',
	note='4 query genomes; baseline rows come from the same code (differential), their correctness is decided by C03/C09/C11.',
)
