"""C02 - Jaccard distance = |A xor B| / |A or B| rounded once to float32.

(i)  for each of the 6x6 dtype pairs: all 64x64 pairs of subsets of two 6-value universes that straddle the integer-width
     boundaries (so 65535 as u2 meets 65536 as u4, values compare across widths), both argument orders by construction.
(ii) every fraction s/u with 1<=u<=U, 0<=s<=u, in three interleavings, rotating through the dtype pairs.
(iii) arrays of other dtypes are rejected.
(v) very unequal sizes (1-3 against 40..2000 elements) with values packed at the top of each integer range, all 36 dtype pairs, both orders.
(iv) large arrays (sizes around powers of two up to 2^17+1, thorough 2^20+1) in seven fixed overlap patterns, expected values from counting formulas.
Oracle: exact Fraction rounded once to binary32 by integer arithmetic (refmodel.f32_bits_of_fraction).
"""
import itertools
import struct
from fractions import Fraction
from mc.core import Shard
from mc import refmodel as R

ID = 'C02'
LEVEL = 'exploration'
RULE = ('(i) all pairs of subsets of 6-value boundary universes for all 36 dtype pairs; (ii) every fraction s/u, u<=U, three interleavings; '
        'a case is one (dtype pair, A, B); non-trivial = both sets non-empty and neither equal nor disjoint (a genuine merge with a rounded ratio)')
ASSUMPTIONS = [
	'"bit-exact for sets smaller than 2^24" is explored only up to |A union B| <= U (512 quick / 2048 thorough); above that the argument '
	'(numerator and denominator exactly representable, one IEEE division) is arithmetic, not exploration',
	'signed arrays hold non-negative values only (k-mer indices)',
]

DTYPES = ['u2', 'u4', 'u8', 'i2', 'i4', 'i8']
UNIVERSE = {
	'i2': [0, 1, 2, 255, 32766, 32767],
	'u2': [0, 1, 255, 32767, 32768, 65535],
	'i4': [0, 1, 32767, 65535, 65536, 2 ** 31 - 1],
	'u4': [0, 1, 65535, 65536, 2 ** 31, 2 ** 32 - 1],
	'i8': [0, 1, 65535, 2 ** 32 - 1, 2 ** 32, 2 ** 63 - 1],
	'u8': [0, 1, 2 ** 32 - 1, 2 ** 32, 2 ** 63, 2 ** 64 - 1],
}


def plan(tier, seed):
	U = 512 if tier == 'quick' else 2048
	tasks = [('t_subsets', dict(da=a, db=b)) for a in DTYPES for b in DTYPES]
	step = 32 if tier == 'quick' else 64
	bounds = list(range(1, U + 1, step))
	# balance: cost grows with u^2, so interleave ranges
	nsh = 32
	tasks += [('t_fractions', dict(U=U, shard=i, nshards=nsh, seed=seed)) for i in range(nsh)]
	tasks.append(('t_reject', dict()))
	for part in range(4):
		tasks.append(('t_large', dict(part=part, nparts=4, tier=tier)))
	for da in DTYPES:
		tasks.append(('t_skewed', dict(da=da, tier=tier)))
	top = 17 if tier == 'quick' else 20
	for part in range(16):
		tasks.append(('t_ratio_sweep', dict(part=part, nparts=16, top=top)))
	return tasks


def f32bits(x):
	return struct.unpack('<I', struct.pack('<f', float(x)))[0]


def check_pair(sh, A, B, da, db, full=True):
	import numpy as np
	from gambit.metric import jaccarddist, jaccard
	a = np.array(A, dtype=da)
	b = np.array(B, dtype=db)
	exp_frac = R.ref_jaccard_fraction(A, B)
	exp = R.f32_bits_of_fraction(exp_frac)
	got = jaccarddist(a, b)
	sh.evals += 1
	gb = f32bits(got)
	if gb != exp or float(np.float32(got)) != float(got):
		sh.violation('jaccarddist', dict(A=list(A), B=list(B), da=da, db=db), exp, gb)
		return
	if full and (len(A) + len(B)) % 3 == 0:
		# the same sets as non-contiguous views: each argument in turn (and both) as every 2nd / 3rd element of a padded array, as a slice
		# at an offset of a larger buffer, and as the reversed view of a descending array (negative stride)
		def views(X, dt):
			p2 = np.full(2 * len(X) + 1, 7, dtype=dt); p2[1::2] = X
			p3 = np.full(3 * len(X) + 2, 9, dtype=dt); p3[2::3] = X
			po = np.full(len(X) + 4, 5, dtype=dt); po[2:2 + len(X)] = X
			pr = np.array(list(X)[::-1], dtype=dt)
			return dict(stride2=p2[1::2], stride3=p3[2::3], offset=po[2:2 + len(X)], reversed=pr[::-1])
		va, vb = views(A, da), views(B, db)
		for ka, kb in (('stride2', 'offset'), ('offset', 'stride2'), ('stride2', 'stride3'), ('reversed', 'offset'), ('offset', 'reversed'), ('stride3', 'reversed')):
			gv = f32bits(jaccarddist(va[ka] if ka != 'plain' else a, vb[kb]))
			sh.evals += 1
			if gv != exp:
				sh.violation('jaccarddist-strided-view', dict(A=list(A), B=list(B), da=da, db=db, view_of_A=ka, view_of_B=kb), exp, gv)
				return
		sh.count('strided_or_offset_views')
		# the same values in the other byte order: refusing them is fine, a number must be the exact one
		for which in ('A', 'B', 'both'):
			xa = a.astype(a.dtype.newbyteorder('>')) if which in ('A', 'both') else a
			xb = b.astype(b.dtype.newbyteorder('>')) if which in ('B', 'both') else b
			sh.evals += 1
			try:
				gv = f32bits(jaccarddist(xa, xb))
			except Exception:
				sh.count('non_native_byte_order_refused')
				continue
			if gv != exp:
				sh.violation('jaccarddist-byte-order', dict(A=list(A), B=list(B), da=da, db=db, big_endian=which), exp, gv)
				return
			sh.count('non_native_byte_order_accepted_exact')
	if full:
		j = jaccard(a, b)
		sh.evals += 1
		d_exact = R.f32_bits_to_fraction(gb)
		ok = {R.f32_bits_of_fraction(1 - d_exact)}
		if f32bits(j) not in ok and Fraction(float(j)) != 1 - d_exact:
			sh.violation('jaccard-index', dict(A=list(A), B=list(B), da=da, db=db), sorted(ok), f32bits(j))
	sa, sb = set(A), set(B)
	if sa and sb and sa != sb and sa & sb:
		sh.nontrivial += 1
	sh.outcome(gb)


def t_subsets(da, db):
	sh = Shard()
	Ua, Ub = UNIVERSE[da], UNIVERSE[db]
	subs_a = [[x for i, x in enumerate(Ua) if m >> i & 1] for m in range(64)]
	subs_b = [[x for i, x in enumerate(Ub) if m >> i & 1] for m in range(64)]
	for A in subs_a:
		for B in subs_b:
			check_pair(sh, A, B, da, db)
	if da != db:
		sh.count('mixed_width_pairs', 4096)
	sh.sample(dict(family='subsets', da=da, db=db, A=subs_a[37], B=subs_b[52], bits=R.ref_jaccard_f32(subs_a[37], subs_b[52])))
	return sh


def make_pair(u, s, mode):
	"""|A u B| = u, |A xor B| = s.  Values 0..u-1."""
	c = u - s
	if mode == 0:      # B subset of A; A-only elements first
		A = list(range(u))
		B = list(range(s, u))
	elif mode == 1:    # A-only first, common, B-only last (array A exhausted first)
		a = s // 2
		A = list(range(0, a + c))
		B = list(range(a, u))
	else:              # alternating A-only / B-only, common at the end (both end together when c > 0)
		A, B = [], []
		for i in range(s):
			(A if i % 2 == 0 else B).append(i)
		for i in range(s, u):
			A.append(i)
			B.append(i)
	return A, B


def t_fractions(U, shard, nshards, seed):
	sh = Shard()
	pairs = [(a, b) for a in DTYPES for b in DTYPES]
	n = 0
	for u in range(1, U + 1):
		if (u * 7 + 3) % nshards != shard:
			continue
		for s in range(0, u + 1):
			for mode in range(3):
				A, B = make_pair(u, s, mode)
				da, db = pairs[(u + s * 5 + mode * 11 + seed) % 36]
				if mode == 2 and (u + s) % 2:
					A, B = B, A
				check_pair(sh, A, B, da, db, full=(u <= 128))
				n += 1
				if mode == 1 and s >= 2 and u > s:
					sh.count('merge_ends_with_one_array_exhausted')
	sh.sample(dict(family='fractions', u=u, s=s, mode=mode, A_head=A[:5], B_head=B[:5]))
	return sh


def dtype_max(dt):
	return 2 ** (int(dt[1]) * 8 - (1 if dt[0] == 'i' else 0)) - 1


def t_skewed(da, tier):
	"""Very unequal sizes (1-3 elements against 40 / 200 / 2000, thorough 20000) with the values packed at the top of the integer ranges -
	consecutive values above 2^53 are exactly where a detour through floating point (searchsorted / isin on promoted arrays) loses elements."""
	import numpy as np
	from gambit.metric import jaccarddist
	sh = Shard()
	sizes = [40, 200, 2000] + ([20000] if tier != 'quick' else [])
	for db in DTYPES:
		for n in sizes:
			for place in ('top-of-b', 'top-of-common', 'low'):
				top = dtype_max(db) if place == 'top-of-b' else min(dtype_max(da), dtype_max(db)) if place == 'top-of-common' else 3 * n + 7
				step = 1 if top - n > 0 and place != 'low' else 3
				if top - step * n < 0:
					continue
				large = list(range(top - step * (n - 1), top + 1, step))
				cands = [large[0], large[n // 2], large[-1], large[-1] - 1 if step == 1 and n > 1 else large[-1], large[n // 3] + (1 if step > 1 else 0), 0, 1]
				cands = sorted({c for c in cands if 0 <= c <= dtype_max(da)})
				smalls = [[c] for c in cands] + [sorted(set(t)) for t in itertools.combinations(cands, 3)][:12]
				L = np.array(large, dtype=db)
				Lset = set(large)
				for small in smalls:
					S = np.array(small, dtype=da)
					sset = set(small)
					u = len(Lset | sset)
					exp = R.f32_bits_of_fraction(Fraction(len(Lset ^ sset), u))
					for x, y, order in ((S, L, 'small-first'), (L, S, 'large-first')):
						got = f32bits(jaccarddist(x, y))
						sh.evals += 1
						if got != exp:
							sh.violation('jaccarddist-skewed', dict(da=da, db=db, n=n, place=place, small=small, order=order), exp, got)
					sh.nontrivial += 1
					if sset & Lset:
						sh.count('skewed_pairs_with_shared_top_values')
					sh.outcome(['skewed', exp])
	sh.sample(dict(family='skewed', da=da, db=db, n=n, place=place, small=small, large_tail=large[-3:]))
	return sh


def t_large(part, nparts, tier):
	"""Sizes around powers of two up to 2^17+1 (thorough 2^20+1) in fixed overlap patterns: a size-keyed shortcut or a narrow counter would show here.
	Expected values come from counting formulas (exact rationals), not from materialised Python sets."""
	import numpy as np
	from fractions import Fraction
	from gambit.metric import jaccarddist
	sh = Shard()
	sizes = [1000, 1023, 1024, 1025, 4095, 4096, 4097, 32767, 32768, 65535, 65536, 65537, 100000, (1 << 17) + 1]
	if tier != 'quick':
		sizes += [(1 << 18) - 1, (1 << 19) + 3, (1 << 20) + 1]
	ci = 0
	for n in sizes:
		base = np.arange(n, dtype='u8')
		patterns = {
			'equal': (base, base, Fraction(0)),
			'shift1': (base, base + 1, Fraction(2, n + 1)),
			'evens-vs-all': (base[::2], base, Fraction(n - len(base[::2]), n)),
			'disjoint': (base, base + n, Fraction(1)),
			'half-overlap': (base, base + n // 2, Fraction(2 * (n // 2), n + n // 2)),
			'one-extra': (base, np.append(base, n + 5), Fraction(1, n + 1)),
			'empty-vs-large': (base[:0], base, Fraction(1)),
		}
		for name, (a, b, frac) in patterns.items():
			for da, db in (('u8', 'u8'), ('u4', 'i8'), ('i4', 'u4')):
				ci += 1
				if ci % nparts != part:
					continue
				exp = R.f32_bits_of_fraction(frac)
				for x, y, dx, dy in ((a, b, da, db), (b, a, db, da)):
					got = f32bits(jaccarddist(x.astype(dx), y.astype(dy)))
					sh.evals += 1
					if got != exp:
						sh.violation('jaccarddist-large', dict(n=n, pattern=name, da=dx, db=dy), exp, got)
				sh.nontrivial += 1
				sh.count('large_pairs')
				sh.outcome(['large', exp])
	sh.sample(dict(family='large', sizes=sizes, patterns=list(patterns)))
	return sh


SWEEP = ['A-has-1-more', 'each-has-1', 'A-has-1-B-has-2', 'share-1', 'share-2']


def sweep_pair(base, u, pat):
	"""Contiguous slices of one increasing array with |A u B| = u and a symmetric difference (or an intersection) of 1..3 elements."""
	if pat == 'A-has-1-more':
		return base[:u], base[1:u], 1
	if pat == 'each-has-1':
		return base[:u - 1], base[1:u], 2
	if pat == 'A-has-1-B-has-2':
		return base[:u - 2], base[1:u], 3
	c = 1 if pat == 'share-1' else 2
	h = (u - c) // 2
	return base[:h + c], base[h:u], u - c


def t_ratio_sweep(part, nparts, top, only=None):
	"""EVERY union size u from 4 to 2^top with a symmetric difference of 1, 2, 3 elements and with an intersection of 1, 2 elements: the
	ratios nearest to 0 and to 1, where a value computed through the complement, in another precision or with a second rounding is off by
	one unit in the last place for particular u only.  Expected: the exact fraction rounded once."""
	import numpy as np
	from gambit.metric import jaccarddist
	sh = Shard()
	N = 1 << top
	bases = {dt: np.arange(7, 7 + N, dtype=dt) for dt in ('u4', 'i8')}
	for u in range(4 + part, N + 1, nparts):
		for pi, pat in enumerate(SWEEP):
			if only is not None and (u, pat) != only:
				continue
			da, db = (('u4', 'u4'), ('i8', 'u4'), ('u4', 'i8'), ('i8', 'i8'))[(u + pi) % 4]
			A, _, s_ = sweep_pair(bases[da], u, pat)
			_, B, _ = sweep_pair(bases[db], u, pat)
			got = f32bits(jaccarddist(A, B))
			sh.evals += 1
			exp = R.f32_bits_of_fraction(Fraction(s_, u))
			if got != exp:
				sh.violation('jaccarddist-ratio-sweep', dict(sweep=True, union=u, pattern=pat, symmetric_difference=s_, da=da, db=db), exp, got)
				if sh.nviol > 20:
					return sh
			sh.nontrivial += 1
	sh.count('ratio_sweep_pairs', sh.evals)
	sh.sample(dict(family='ratio-sweep', top=top, part=part, patterns=SWEEP))
	return sh


def t_reject():
	sh = Shard()
	import numpy as np
	from gambit.metric import jaccarddist, jaccard
	good = np.array([1, 2, 3], dtype='u4')
	for bad_dt in ('u1', 'i1', 'f4', 'f8', 'bool', 'c8', 'O', 'U1'):
		try:
			bad = np.array([0, 1], dtype=bad_dt)
		except Exception:
			continue
		for fn in (jaccarddist, jaccard):
			for args in ((bad, good), (good, bad), (bad, bad)):
				sh.evals += 1
				try:
					r = fn(*args)
				except (ValueError, TypeError):
					sh.count('rejected')
					sh.nontrivial += 1
					continue
				sh.violation('dtype-not-rejected', dict(dtype=bad_dt, fn=fn.__name__), 'ValueError/TypeError', repr(r))
	# two empty sets: +0.0, in every dtype pair
	for da in DTYPES:
		for db in DTYPES:
			r = jaccarddist(np.array([], dtype=da), np.array([], dtype=db))
			sh.evals += 1
			if f32bits(r) != 0:
				sh.violation('empty-empty', dict(da=da, db=db), 0, f32bits(r))
			j = jaccard(np.array([], dtype=da), np.array([], dtype=db))
			if float(j) != 1.0:
				sh.violation('empty-empty-index', dict(da=da, db=db), 1.0, float(j))
	sh.sample(dict(family='reject', dtypes=['u1', 'i1', 'f4', 'f8', 'bool']))
	return sh


def finalize(agg, tier):
	agg.require('mixed_width_pairs', 1000)
	agg.require('merge_ends_with_one_array_exhausted', 1000)
	agg.require('rejected', 10)
	agg.require('large_pairs', 50)
	agg.require('strided_or_offset_views', 1000)
	agg.require('skewed_pairs_with_shared_top_values', 100)
	if len(agg.outcomes) < 1000:
		from mc.core import Vacuous
		raise Vacuous(f'only {len(agg.outcomes)} distinct result bit patterns')


def replay(case, kind=None):
	if case.get('sweep'):
		u = case['union']
		top = max(17, (u - 1).bit_length())
		return t_ratio_sweep(0, 1, top, only=(u, case['pattern'])).violations[:1]
	sh = Shard()
	if 'place' in case:
		import numpy as np
		from gambit.metric import jaccarddist
		da, db, n, place = case['da'], case['db'], case['n'], case['place']
		top = dtype_max(db) if place == 'top-of-b' else min(dtype_max(da), dtype_max(db)) if place == 'top-of-common' else 3 * n + 7
		step = 1 if top - n > 0 and place != 'low' else 3
		large = list(range(top - step * (n - 1), top + 1, step))
		S, L = np.array(case['small'], dtype=da), np.array(large, dtype=db)
		exp = R.f32_bits_of_fraction(Fraction(len(set(large) ^ set(case['small'])), len(set(large) | set(case['small']))))
		got = f32bits(jaccarddist(S, L) if case['order'] == 'small-first' else jaccarddist(L, S))
		if got != exp:
			sh.violation('jaccarddist-skewed', case, exp, got)
		return sh.violations
	if 'pattern' in case:
		return [v for part in range(4) for v in t_large(part, 4, 'thorough').violations if v['case'] == case]
	if 'A' in case:
		check_pair(sh, case['A'], case['B'], case['da'], case['db'])
	else:
		return t_reject().violations
	return sh.violations


MANIFEST = dict(
	engine='E-enum',
	technique='bounded exhaustive enumeration of set pairs and of every fraction s/u on the real native code vs. exact-rational model',
	text='All subset pairs of boundary-straddling universes for all 36 dtype pairs and every ratio s/u with u<=512 (thorough 2048) in three merge '
	     'interleavings are computed by the real jaccarddist and compared bit-for-bit with the exact rational rounded once to binary32.',
	note='set sizes above the bound argued arithmetically (see assumptions); model = Fraction arithmetic in mc/refmodel.py.',
)
