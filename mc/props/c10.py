"""C10 - strict classification reports an order-independent consensus of all matches.

(i)  consensus_taxon: every forest with n<=N taxa x every non-empty subset x EVERY order of the subset.
(ii) classify(strict=True): every forest n<=4(5) x thresholds in {none,1/4,1/2} (>=1 threshold) x every ordered placement of g<=3
     genomes on any taxa x every distance vector over {0,1/4,0.3f,1/2,3/4}: ordered placements x ordered distance vectors contain every
     permutation of every reference list, so order independence is decided by comparing each with the order-free model.
Oracle: refmodel.ref_matching_taxon / ref_consensus (sets, lowest common ancestor of minimal elements).
"""
import itertools
from mc.core import Shard
from mc import refmodel as R
from mc import taxo

ID = 'C10'
LEVEL = 'exploration'
RULE = ('(i) every (forest, ordered non-empty subset) for n<=N; (ii) every (forest, thresholds, ordered genome placement, ordered distance vector); '
        'non-trivial = at least two distinct matched taxa (a consensus has to be formed); cases enumerated once each')
ASSUMPTIONS = [
	'forests with more than N taxa (5 quick / 6 thorough for consensus_taxon; 4 / 5 for classify) are not explored',
	'warning text is judged only by which taxon names (unique tokens) it mentions, not by wording',
	'when there is no common ancestor (no prediction) only success=False + error are required; the warning clause is not judged',
]

import numpy as np
F32 = np.float32
DISTS = [0.0, 0.25, float(F32(0.3)), 0.5, 0.75]
THRS = [None, 0.25, 0.5]


def plan(tier, seed):
	N = 5 if tier == 'quick' else 6
	tasks = []
	nsh = 8 if tier == 'quick' else 48
	for s in range(nsh):
		tasks.append(('t_consensus', dict(N=N, shard=s, nshards=nsh)))
	for start in range(len(taxo.WORLDS)):
		tasks.append(('t_persisted', dict(start=start, depth=3 if tier == 'quick' else 4)))
	for si in range(len(DEEP_SHAPES)):
		tasks.append(('t_consensus_deep', dict(si=si, maxm=4 if tier == 'quick' else 5)))
	for L in ((34, 40, 70) if tier == 'quick' else (33, 34, 35, 40, 64, 65, 70, 130, 300)):
		for b in sorted({1, max(1, L - 34), L // 2}):
			tasks.append(('t_very_deep', dict(L=L, b=b)))
	if tier == 'quick':
		cfgs = [(1, 3, 'full'), (2, 3, 'full'), (3, 3, 'full'), (4, 2, 'full'), (4, 3, 'coarse')]
	else:
		cfgs = [(1, 3, 'full'), (2, 3, 'full'), (3, 3, 'full'), (4, 3, 'full'), (5, 2, 'full'), (5, 3, 'coarse')]
	for n, g, dmode in cfgs:
		nsh = {1: 1, 2: 1, 3: 4}.get(n, 24 if tier == 'quick' else 60)
		for s in range(nsh):
			tasks.append(('t_classify', dict(n=n, gmax=g, dmode=dmode, shard=s, nshards=nsh)))
	return tasks


def check_consensus(sh, parent, taxa, order):
	from gambit.classify import consensus_taxon
	c, below = R.ref_consensus(parent, order)
	got_c, got_others = consensus_taxon([taxa[i] for i in order])
	sh.evals += 1
	gc = taxo.idx(taxa, got_c)
	go = sorted(taxo.idx(taxa, t) for t in got_others)
	exp_o = sorted(below) if c is not None else sorted(set(order))
	if gc != c or go != exp_o:
		sh.violation('consensus', dict(parent=list(parent), order=list(order)), dict(consensus=c, below=exp_o), dict(consensus=gc, below=go))
	if len(order) >= 2:
		sh.nontrivial += 1
	if c is None:
		sh.count('no_common_ancestor')
	elif below:
		sh.count('conflict')
	if c is not None and c not in order:
		sh.count('consensus_not_a_member')
	sh.outcome([len(parent), c, exp_o])


def t_consensus(N, shard, nshards):
	sh = Shard()
	fi = 0
	for n in range(1, N + 1):
		for parent in R.forests(n):
			fi += 1
			if fi % nshards != shard:
				continue
			taxa = taxo.build_taxa(parent)
			for m in range(1, n + 1):
				for order in itertools.permutations(range(n), m):
					check_consensus(sh, parent, taxa, order)
			if shard == 0 and fi == nshards:
				from gambit.classify import consensus_taxon
				if consensus_taxon([]) != (None, set()):
					sh.violation('consensus-empty', dict(parent=[], order=[]))
	sh.sample(dict(family='consensus_taxon', parent=list(parent), last_order=list(order)))
	return sh


# deeper shapes (7-9 taxa): chains, Y shapes with long arms, a comb, two separate trees
DEEP_SHAPES = [
	(None, 0, 1, 2, 3, 4, 5, 6),                 # chain of 8
	(None, 0, 1, 2, 2, 3, 4, 5, 6),              # Y: stem 3, arms of 3
	(None, 0, 0, 1, 2, 3, 4, 5, 6),              # Y from the root, arms of 4
	(None, 0, 1, 1, 2, 2, 3, 3),                 # binary-ish comb
	(None, 0, 1, 2, None, 4, 5, 6),              # two chains of 4
	(None, 0, 1, 2, 3, 1, 5, 6, 7),              # long arm off a high node
]


def t_persisted(start, depth, only=None):
	"""Strict classification over histories of persisted databases that share primary keys / keys / names but differ in shape and thresholds,
	with threshold edits in between, all in one process (see C03.t_persisted): remembered per-taxon state shows as a wrong consensus."""
	from mc import fixtures
	import os
	import gambit.classify, gambit.query, gambit.db
	fixtures.reset_gambit_globals()
	sh = Shard()
	nw = len(taxo.WORLDS)
	with fixtures.workdir('c10p') as d:
		paths = []
		for j, w in enumerate(taxo.WORLDS):
			p = os.path.join(d, f'w{j}.gdb')
			taxo.write_world(p, w)
			paths.append(p)
		events = [('open', j) for j in range(nw)] + [('edit', 0), ('edit', 1)]
		dvecs = list(itertools.product(DISTS, repeat=3))
		for hist in ([None] if only else itertools.product(events, repeat=depth - 1)):
			hist = tuple(tuple(h) for h in only) if only else (('open', start),) + hist
			fixtures.reset_gambit_globals()       # every history starts from the state of a freshly imported library
			cur = None
			sessions = []
			try:
				for step, (op, arg) in enumerate(hist):
					if op == 'open':
						w = taxo.WORLDS[arg]
						session, taxa, genomes = taxo.open_world(paths[arg])
						sessions.append(session)
						cur = dict(parent=w['parent'], thr=list(w['thr']), placement=w['placement'], taxa=taxa, genomes=genomes)
					else:
						thr = cur['thr']
						thr = thr[1:] + thr[:1] if arg == 0 else [None if t is None else min(1.0, t + 0.25) for t in thr]
						for t_obj, v in zip(cur['taxa'], thr):
							t_obj.distance_threshold = v
						cur['thr'] = thr
					if all(t is None for t in cur['thr']):
						continue
					for dists in dvecs:
						before, kept = sh.nviol, len(sh.violations)
						check_classify(sh, cur['parent'], tuple(cur['thr']), cur['taxa'], cur['placement'], dists, cur['genomes'])
						if sh.nviol != before:
							if len(sh.violations) > kept:
								sh.violations[-1]['case']['history'] = [list(h) for h in hist[:step + 1]]
								sh.violations[-1]['kind'] = 'persisted-' + sh.violations[-1]['kind']
							raise StopIteration
					sh.count('persisted_steps')
			except StopIteration:
				pass
			finally:
				for s_ in sessions:
					s_.close()
					s_.get_bind().dispose()
	sh.sample(dict(family='persisted', history=[list(h) for h in hist], worlds=nw))
	return sh


def t_consensus_deep(si, maxm):
	sh = Shard()
	parent = DEEP_SHAPES[si]
	n = len(parent)
	taxa = taxo.build_taxa(parent)
	for m in range(1, maxm + 1):
		for order in itertools.permutations(range(n), m):
			check_consensus(sh, parent, taxa, order)
	sh.count('deep_shape_cases', sh.evals)
	sh.sample(dict(family='consensus_taxon-deep', parent=list(parent), last_order=list(order)))
	return sh


def t_very_deep(L, b):
	"""Y-shaped taxonomies with 33..300 levels: a chain 0..L-1 and a second arm of 35 taxa branching off below taxon b.  consensus_taxon for every
	ordered pair / triple from a boundary set of taxa (root, around the fork, 31..34 levels above each tip, tips); strict classification with the
	only thresholds at one or two of those taxa and genomes on both tips."""
	sh = Shard()
	A = 35
	parent = tuple([None] + list(range(L - 1)) + [b] + list(range(L, L + A - 1)))
	n = len(parent)
	tip1, tip2 = L - 1, n - 1
	taxa = taxo.build_taxa(parent)
	bset = sorted({0, 1, b - 1, b, b + 1, L // 2, L - 2, tip1, L, L + 1, tip2 - 1, tip2} | {x for x in range(L - 36, L - 29) if x >= 0} | {n - 34, n - 33, n - 32})
	bset = [x for x in bset if 0 <= x < n]
	for m in (1, 2, 3):
		for order in itertools.permutations(bset, m):
			check_consensus(sh, parent, taxa, order)
	for j1 in bset:
		for j2 in bset:
			thr = [None] * n
			thr[j1] = 0.5
			if j2 != j1:
				thr[j2] = 0.25
			taxo.set_attrs(taxa, thr=thr)
			for placement in ((tip1, tip2), (tip2, tip1), (tip1, L // 2), (tip1, tip2, b)):
				genomes = taxo.make_genomes(taxa, placement)
				for dists in itertools.product([0.0, 0.25, 0.5, 0.75], repeat=len(placement)):
					check_classify(sh, parent, tuple(thr), taxa, placement, dists, genomes)
	sh.count('very_deep_cases', sh.evals)
	sh.sample(dict(family='very_deep', L=L, fork=b, taxa=n, boundary_set=bset))
	return sh


def check_classify(sh, parent, thr, taxa, placement, dists, genomes=None):
	from gambit.classify import classify
	if genomes is None:
		genomes = taxo.make_genomes(taxa, placement)
	darr = np.array(dists, dtype=F32)
	r = classify(genomes, darr, strict=True)
	sh.evals += 1
	case = dict(parent=list(parent), thr=list(thr), placement=list(placement), dists=list(dists))
	m = [R.ref_matching_taxon(parent, thr, p, d) for p, d in zip(placement, dists)]
	M = {x for x in m if x is not None}
	dmin = min(dists)
	# closest match
	ci = [i for i, g in enumerate(genomes) if g is r.closest_match.genome]
	if not ci or dists[ci[0]] != dmin or float(r.closest_match.distance) != dmin:
		sh.violation('strict-closest', case, dict(min=dmin), dict(index=ci))
		return
	pred = taxo.idx(taxa, r.predicted_taxon)
	names_in = lambda s: {i for i in range(len(taxa)) if f'<T{i}>' in s}
	if not M:
		if pred is not None or r.primary_match is not None or not r.success:
			sh.violation('strict-nomatch', case, dict(pred=None, primary=None, success=True), dict(pred=pred, success=r.success))
		sh.outcome('nomatch')
		return
	c, below = R.ref_consensus(parent, M)
	if pred != c:
		sh.violation('strict-prediction', case, dict(matched=sorted(M), consensus=c, below=sorted(below)), dict(pred=pred))
		return
	if r.success != (c is not None) or (c is None) != (r.error is not None):
		sh.violation('strict-success', case, dict(success=c is not None), dict(success=r.success, error=r.error))
		return
	if c is None:
		if r.primary_match is not None:
			sh.violation('strict-primary', case, None, 'primary match without prediction')
		sh.count('classify_no_common_ancestor')
	else:
		cand = [i for i in range(len(placement)) if m[i] is not None and c in R.lineage(parent, m[i])]
		best = min(dists[i] for i in cand)
		pm = r.primary_match
		pi = [i for i, g in enumerate(genomes) if pm is not None and g is pm.genome]
		if pm is None or not pi or not any(i in cand and dists[i] == best for i in pi) or float(pm.distance) != best:
			sh.violation('strict-primary', case, dict(candidates=cand, distance=best), dict(index=pi, distance=None if pm is None else float(pm.distance)))
			return
		mentioned = [names_in(w) for w in r.warnings]
		if below:
			if not any(below <= s for s in mentioned):
				sh.violation('strict-warning-missing', case, dict(below=sorted(below)), dict(warnings=list(r.warnings)))
				return
			sh.count('classify_conflict')
		elif any(mentioned):
			sh.violation('strict-warning-spurious', case, dict(below=[]), dict(warnings=list(r.warnings)))
			return
		if best != dmin:
			sh.count('primary_not_closest')
	if len(M) >= 2:
		sh.nontrivial += 1
	sh.outcome([c, sorted(below), sorted(M)])


def t_classify(n, gmax, dmode, shard, nshards):
	sh = Shard()
	dvals = DISTS if dmode == 'full' else [0.25, 0.5, 0.75]
	ci = 0
	for parent in R.forests(n):
		taxa = taxo.build_taxa(parent)
		for thr in itertools.product(THRS + [0.0] if n <= 3 else THRS, repeat=n):      # 0.0: falsy but present
			if all(t is None for t in thr):
				continue
			ci += 1
			if ci % nshards != shard:
				continue
			taxo.set_attrs(taxa, thr=thr)
			glo = 1 if dmode == 'full' else gmax
			for g in range(glo, gmax + 1):
				for placement in itertools.product(range(n), repeat=g):
					genomes = taxo.make_genomes(taxa, placement)
					for dists in itertools.product(dvals, repeat=g):
						check_classify(sh, parent, thr, taxa, placement, dists, genomes)
	sh.sample(dict(family='classify-strict', parent=list(parent), thr=list(thr), placement=list(placement), dists=list(dists)))
	return sh


def finalize(agg, tier):
	for c in ('conflict', 'no_common_ancestor', 'consensus_not_a_member', 'classify_conflict', 'classify_no_common_ancestor', 'primary_not_closest', 'deep_shape_cases', 'persisted_steps', 'very_deep_cases'):
		agg.require(c, 50)


def replay(case, kind=None):
	sh = Shard()
	if 'history' in case:
		return t_persisted(case['history'][0][1], len(case['history']), only=case['history']).violations[:1]
	parent = tuple(case['parent'])
	taxa = taxo.build_taxa(parent)
	if 'order' in case:
		if case['order']:
			check_consensus(sh, parent, taxa, tuple(case['order']))
	else:
		taxo.set_attrs(taxa, thr=case['thr'])
		check_classify(sh, parent, tuple(case['thr']), taxa, tuple(case['placement']), tuple(case['dists']))
	return sh.violations


MANIFEST = dict(
	engine='E-enum',
	technique='bounded exhaustive enumeration of taxonomy forests x matched sets x all encounter orders on the real classifier vs. set-based model',
	text='Every forest with <=5 (thorough 6) taxa, every non-empty subset and every order of it goes through the real consensus_taxon; every forest '
	     '<=4 (5) x thresholds x ordered genome placements x distance vectors goes through classify(strict=True). Each result is compared with an '
	     'order-free model (LCA of the minimal matched taxa), which decides order independence for all encounter orders within the bound.',
	note='forest size bound; warnings judged by mentioned taxon names only; transient ORM objects as in the repo tests.',
)
