#!/bin/bash
# Runs every mutant in selftest/mutants against the check of its property (must exit 1, replay must fail on the mutant and pass on /repo)
# and against one unrelated check (must stay silent).  Writes selftest/RESULTS.md.
cd "$(dirname "$0")/.."
out=selftest/RESULTS.md
echo "# Mutant self-test ($(date -u +%F))" > $out
echo >> $out
echo "| mutant | own check | replay on mutant / on /repo | unrelated check |" >> $out
echo "|---|---|---|---|" >> $out
unrel() { case $1 in C01|C06|C07) echo C15;; C02|C15) echo C07;; C03|C10|C09) echo C20;; C20|C12|C04|C19) echo C10;; *) echo C07;; esac; }
for m in selftest/mutants/*; do
  id=$(basename $m | cut -c1-3)
  u=$(unrel $id)
  res=$(selftest/mut.sh $m $id $u 2>&1 | grep -v "^WARNING conda")
  own=$(echo "$res" | grep " $id exit=" | sed -E 's/.* exit=([0-9]+).*/exit \1/')
  rep=$(echo "$res" | grep "replay on mutant" | head -1 | sed -E 's/.*exit=([0-9]+) \(want 1\), on \/repo exit=([0-9]+).*/\1 \/ \2/')
  un=$(echo "$res" | grep " $u exit=" | sed -E 's/.* exit=([0-9]+).*/'$u' exit \1/')
  echo "| $(basename $m) | $own | $rep | $un |" >> $out
done
cat $out
