#!/bin/bash
# selftest/mut.sh <patch> <ID> [<ID>...]   -- apply a patch to a scratch copy of /repo/src and run the quick checks against it.
# Prints one line per check: "<patch> <ID> exit=<n>".  Scratch copy is removed afterwards.  Never touches /repo.
set -u
patch="$(realpath "$1")"; shift
scratch="$(mktemp -d /tmp/gmut.XXXXXX)"
trap 'rm -rf "$scratch"' EXIT
mkdir -p "$scratch/repo"
rsync -a --exclude .git --exclude tests --exclude docs /repo/ "$scratch/repo/"
case "$patch" in
  *.sh) (cd "$scratch/repo" && bash "$patch") || { echo "$patch MUTATOR-FAILED"; exit 3; } ;;
  *) (cd "$scratch/repo" && patch -p1 -s < "$patch") || { echo "$patch PATCH-FAILED"; exit 3; } ;;
esac
for c in "$scratch"/repo/src/gambit/_cython/*.c; do
  so="${c%.c}.cpython-312-x86_64-linux-gnu.so"
  if [ "$c" -nt "$so" ]; then :; fi
done
for id in "$@"; do
  out="$scratch/out.$id"
  VERIF_REPO="$scratch/repo" VERIF_EVIDENCE_DIR="$scratch/evidence" VERIF_REPLAY_DIR="$scratch/replays" \
    /verif/check "$id" --tier "${MUT_TIER:-quick}" > "$out" 2>&1
  rc=$?
  echo "$(basename "$patch") $id exit=$rc $(grep -c '^VIOLATION' "$out") violation-lines; $(grep -m1 -A1 '^VIOLATION' "$out" | head -1)"
  if [ -n "${MUT_VERBOSE:-}" ]; then tail -5 "$out"; fi
  if [ $rc -eq 1 ]; then
    rp=$(grep -m1 '^VIOLATION' "$out" | sed 's/.*replay=//')
    if [ -n "${MUT_SHOW:-}" ]; then head -c 1500 "$rp"; echo; fi
    # the replay must fail on the mutant ...
    VERIF_REPO="$scratch/repo" VERIF_EVIDENCE_DIR="$scratch/evidence" /verif/check "$id" --replay "$rp" >/dev/null 2>&1; r1=$?
    # ... and pass on the unchanged tree
    /verif/check "$id" --replay "$rp" >/dev/null 2>&1; r2=$?
    echo "   replay on mutant exit=$r1 (want 1), on /repo exit=$r2 (want 0)"
  fi
done
